//! Model-based interpreter for protected-memory histories (C14 / C15 / C19). Each history runs in a
//! forked child (see `run_in_child`): the kernel's bookkeeping for that process is the oracle.
#![cfg(feature = "nightly")]
use crate::core::*;
use crate::osobs::*;
use dryoc::protected::traits as pt;
use dryoc::protected::*;
use serde::{Deserialize, Serialize};
use std::sync::atomic::Ordering;
use zeroize::Zeroize;

pub const LENGTHS: [usize; 10] = [0, 1, 16, 32, 64, 4095, 4096, 4097, 8192, 8193];
/// lengths for the resizable container: the fixed list plus sizes beyond glibc's mmap threshold (128 KiB)
pub const BYTES_LENGTHS: [usize; 13] = [0, 1, 16, 32, 64, 4095, 4096, 4097, 8192, 8193, 131072, 200000, 262145];

#[derive(Debug, Clone, Copy, PartialEq, Eq, Serialize, Deserialize)]
pub enum Ctor {
    FromSliceLocked,
    FromSliceROLocked,
    NewLockedFill,
    PlainThenMlock,
    Plain,
    StackMlock,
    StackReadOnly,
    GenLocked,
    GenROLocked,
}

#[derive(Debug, Clone, PartialEq, Eq, Serialize, Deserialize)]
pub enum Op {
    New { ctor: Ctor, len_idx: usize },
    Lock(usize),
    Unlock(usize),
    ReadOnly(usize),
    ReadWrite(usize),
    NoAccess(usize),
    Clone(usize),
    Resize(usize, usize),
    Write(usize, usize, u8),
    Drop(usize),
    /// C15: library operations that build and drop protected outputs
    HighLevel(usize),
    /// Result-returning deserialisation straight into locked memory (format/type selector, payload length index)
    Deserialize(usize, usize),
    /// drop the region while a panic is unwinding (inside catch_unwind)
    DropUnwinding(usize),
    /// Result-returning wrapper constructors built on protected memory (key pairs, precomputed keys)
    Wrapper(usize),
}

#[derive(Debug, Clone, Copy, PartialEq, Eq, Serialize, Deserialize)]
pub enum Mode {
    /// kernel view after every step + fault probes
    C14,
    /// release observer: every freed block is all-zero
    C15,
    /// k-th and later mlock refused
    C19 { refuse_from: i64, #[serde(default)] errno: i32 },
}

#[derive(Debug, Clone, Serialize, Deserialize)]
pub struct History {
    /// None = HeapBytes (resizable); Some(n) = HeapByteArray<n>
    pub array_len: Option<usize>,
    pub ops: Vec<Op>,
    pub fill: u64,
}

#[derive(Debug, Clone, Copy, PartialEq, Eq)]
pub enum Prot {
    RW,
    RO,
    NA,
}

pub trait Container: Zeroize + NewBytes + MutBytes + Lockable<Self> + NewLocked<Self> + Clone + Default + Sized + 'static {
    const FIXED: Option<usize>;
    fn make(data: &[u8]) -> Self;
    fn from_slice_locked(data: &[u8]) -> Result<Locked<Self>, String>;
    fn from_slice_ro_locked(data: &[u8]) -> Result<LockedRO<Self>, String>;
    fn new_locked_fill(data: &[u8]) -> Result<Locked<Self>, String>;
    fn stack_mlock(data: &[u8]) -> Option<Result<Locked<Self>, String>>;
    fn stack_readonly(data: &[u8]) -> Option<Result<UnlockedRO<Self>, String>>;
    fn resize_plain(a: &mut Self, n: usize, v: u8) -> bool;
    fn resize_locked(l: &mut Locked<Self>, n: usize, v: u8) -> bool;
    fn resize_unlocked(u: &mut Unlocked<Self>, n: usize, v: u8) -> bool;
    fn clone_locked(l: &Locked<Self>) -> Option<Locked<Self>>;
    fn clone_locked_ro(l: &LockedRO<Self>) -> Option<LockedRO<Self>>;
}

fn es<E: std::fmt::Debug>(e: E) -> String {
    format!("{e:?}")
}

impl Container for HeapBytes {
    const FIXED: Option<usize> = None;
    fn make(data: &[u8]) -> Self {
        let mut h = HeapBytes::default();
        h.resize(data.len(), 0);
        h.as_mut_slice().copy_from_slice(data);
        h
    }
    fn from_slice_locked(data: &[u8]) -> Result<Locked<Self>, String> {
        HeapBytes::from_slice_into_locked(data).map_err(es)
    }
    fn from_slice_ro_locked(data: &[u8]) -> Result<LockedRO<Self>, String> {
        HeapBytes::from_slice_into_readonly_locked(data).map_err(es)
    }
    fn new_locked_fill(data: &[u8]) -> Result<Locked<Self>, String> {
        let mut l = HeapBytes::new_locked().map_err(es)?;
        l.resize(data.len(), 0);
        l.as_mut_slice().copy_from_slice(data);
        Ok(l)
    }
    fn stack_mlock(_: &[u8]) -> Option<Result<Locked<Self>, String>> {
        None
    }
    fn stack_readonly(_: &[u8]) -> Option<Result<UnlockedRO<Self>, String>> {
        None
    }
    fn resize_plain(a: &mut Self, n: usize, v: u8) -> bool {
        a.resize(n, v);
        true
    }
    fn resize_locked(l: &mut Locked<Self>, n: usize, v: u8) -> bool {
        l.resize(n, v);
        true
    }
    fn resize_unlocked(u: &mut Unlocked<Self>, n: usize, v: u8) -> bool {
        u.resize(n, v);
        true
    }
    fn clone_locked(l: &Locked<Self>) -> Option<Locked<Self>> {
        Some(l.clone())
    }
    fn clone_locked_ro(l: &LockedRO<Self>) -> Option<LockedRO<Self>> {
        Some(l.clone())
    }
}

impl<const N: usize> Container for HeapByteArray<N> {
    const FIXED: Option<usize> = Some(N);
    fn make(data: &[u8]) -> Self {
        HeapByteArray::<N>::try_from(data).expect("length")
    }
    fn from_slice_locked(data: &[u8]) -> Result<Locked<Self>, String> {
        HeapByteArray::<N>::from_slice_into_locked(data).map_err(es)
    }
    fn from_slice_ro_locked(data: &[u8]) -> Result<LockedRO<Self>, String> {
        HeapByteArray::<N>::from_slice_into_readonly_locked(data).map_err(es)
    }
    fn new_locked_fill(data: &[u8]) -> Result<Locked<Self>, String> {
        let mut l = HeapByteArray::<N>::new_locked().map_err(es)?;
        l.as_mut_slice().copy_from_slice(data);
        Ok(l)
    }
    fn stack_mlock(data: &[u8]) -> Option<Result<Locked<Self>, String>> {
        let s = StackByteArray::<N>::try_from(data).expect("length");
        Some(s.mlock().map_err(es))
    }
    fn stack_readonly(data: &[u8]) -> Option<Result<UnlockedRO<Self>, String>> {
        let s = StackByteArray::<N>::try_from(data).expect("length");
        Some(s.mprotect_readonly().map_err(es))
    }
    fn resize_plain(_: &mut Self, _: usize, _: u8) -> bool {
        false
    }
    fn resize_locked(_: &mut Locked<Self>, _: usize, _: u8) -> bool {
        false
    }
    fn resize_unlocked(_: &mut Unlocked<Self>, _: usize, _: u8) -> bool {
        false
    }
    fn clone_locked(_: &Locked<Self>) -> Option<Locked<Self>> {
        None
    }
    fn clone_locked_ro(_: &LockedRO<Self>) -> Option<LockedRO<Self>> {
        None
    }
}

pub enum Reg<A: Container> {
    Plain(A),
    U(Unlocked<A>),
    URO(UnlockedRO<A>),
    UNA(NoAccess<A>),
    L(Locked<A>),
    LRO(LockedRO<A>),
    LNA(Protected<A, pt::NoAccess, pt::Locked>),
    /// consumed by a transition that returned Err
    Gone,
}

impl<A: Container> Reg<A> {
    fn state_name(&self) -> &'static str {
        match self {
            Reg::Plain(_) => "Plain",
            Reg::U(_) => "Unlocked/ReadWrite",
            Reg::URO(_) => "Unlocked/ReadOnly",
            Reg::UNA(_) => "Unlocked/NoAccess",
            Reg::L(_) => "Locked/ReadWrite",
            Reg::LRO(_) => "Locked/ReadOnly",
            Reg::LNA(_) => "Locked/NoAccess",
            Reg::Gone => "Gone",
        }
    }
    fn view(&self) -> Option<&[u8]> {
        match self {
            Reg::Plain(a) => Some(a.as_slice()),
            Reg::U(p) => Some(p.as_slice()),
            Reg::URO(p) => Some(p.as_slice()),
            Reg::L(p) => Some(p.as_slice()),
            Reg::LRO(p) => Some(p.as_slice()),
            _ => None,
        }
    }
    fn expect(&self) -> (Prot, bool) {
        match self {
            Reg::Plain(_) | Reg::U(_) => (Prot::RW, false),
            Reg::URO(_) => (Prot::RO, false),
            Reg::UNA(_) => (Prot::NA, false),
            Reg::L(_) => (Prot::RW, true),
            Reg::LRO(_) => (Prot::RO, true),
            Reg::LNA(_) => (Prot::NA, true),
            Reg::Gone => (Prot::RW, false),
        }
    }
}

pub struct Model {
    pub id: usize,
    pub bytes: Vec<u8>,
    pub ptr: usize,
}

#[derive(Default, Debug, Clone, Serialize, Deserialize)]
pub struct RunStats {
    pub steps: u64,
    pub states_reached: Vec<String>,
    pub protect_transitions: u64,
    pub lock_transitions: u64,
    pub clone_or_resize_of_locked: u64,
    pub probes: u64,
    pub releases: u64,
    pub nonplain_releases: u64,
    pub mlock_calls: u64,
    pub mlock_refused: u64,
    pub err_transitions: u64,
    pub fault_reached_with_live_regions: bool,
    pub max_len_class: String,
}

struct Exec<A: Container> {
    regs: Vec<(Reg<A>, Model)>,
    mode: Mode,
    page: usize,
    baseline_lck: u64,
    visited: Vec<(usize, usize)>,
    next_id: usize,
    fill: Fill,
    events_seen: usize,
    stats: RunStats,
    expected_release_nonplain: bool,
}

fn pattern(id: usize, gen: usize, n: usize) -> Vec<u8> {
    (0..n).map(|i| 1 + ((id * 37 + gen * 11 + i * 7) % 255) as u8).collect()
}

fn caught<R>(what: &str, f: impl FnOnce() -> R) -> Result<R, String> {
    no_panic(f).map_err(|p| format!("{what} panicked: {p} at {}", last_panic_loc()))
}

impl<A: Container> Exec<A> {
    fn refusing_now(&self) -> bool {
        if let Mode::C19 { refuse_from, .. } = self.mode {
            return refuse_from > 0 && (MLOCK_CALLS.load(Ordering::SeqCst) as i64 + 1) >= refuse_from;
        }
        false
    }

    fn note_state(&mut self, r: &Reg<A>, len: usize) {
        let class = if len == 0 {
            "empty"
        } else if len < self.page {
            "sub-page"
        } else if len % self.page == 0 {
            "page-aligned"
        } else if len % self.page == 1 {
            "page+1"
        } else {
            "multi-page"
        };
        let s = format!("{}@{}", r.state_name(), class);
        if !self.stats.states_reached.contains(&s) {
            self.stats.states_reached.push(s);
        }
    }

    /// per-region oracle against the kernel's view
    fn check_region(&self, reg: &Reg<A>, m: &Model, vmas: &[Vma], step: &str) -> Result<(), String> {
        if matches!(reg, Reg::Gone) {
            return Ok(());
        }
        let len = m.bytes.len();
        if let Some(v) = reg.view() {
            if v.len() != len {
                return Err(format!("{step}: region {} has length {} but the model expects {len}", m.id, v.len()));
            }
            if len > 0 && v.as_ptr() as usize != m.ptr {
                return Err(format!("{step}: harness: region {} moved without the model noticing", m.id));
            }
        }
        if len == 0 {
            return Ok(());
        }
        let (prot, locked) = reg.expect();
        let want = match prot {
            Prot::RW => "rw-p",
            Prot::RO => "r--p",
            Prot::NA => "---p",
        };
        let p = self.page;
        let first = m.ptr / p * p;
        let last = (m.ptr + len - 1) / p * p;
        let mut a = first;
        while a <= last {
            let v = vma_of(vmas, a).ok_or_else(|| format!("{step}: page {a:#x} of region {} is not mapped", m.id))?;
            if v.perms != want {
                return Err(format!(
                    "{step}: region {} ({}, {len} bytes): page {} of {} has rights {} but the type state advertises {}",
                    m.id,
                    reg.state_name(),
                    (a - first) / p,
                    (last - first) / p + 1,
                    v.perms,
                    want
                ));
            }
            if v.locked_flag != locked {
                return Err(format!(
                    "{step}: region {} ({}, {len} bytes): page {} is {}locked in RAM (VmFlags) but the type says {}",
                    m.id,
                    reg.state_name(),
                    (a - first) / p,
                    if v.locked_flag { "" } else { "not " },
                    if locked { "Locked" } else { "Unlocked" }
                ));
            }
            a += p;
        }
        // guard pages
        let before = vma_of(vmas, m.ptr - p).map(|v| v.perms.clone()).unwrap_or("unmapped".into());
        if before != "---p" {
            return Err(format!("{step}: region {}: the page just before the data has rights {before}, expected an inaccessible guard page", m.id));
        }
        let cap = live_alloc_size(m.ptr).unwrap_or(len).max(len);
        let end = (m.ptr + cap + p - 1) / p * p;
        let g1 = vma_of(vmas, end).map(|v| v.perms.clone()).unwrap_or("unmapped".into());
        let g2 = vma_of(vmas, end + p).map(|v| v.perms.clone()).unwrap_or("unmapped".into());
        if g1 != "---p" && g2 != "---p" {
            return Err(format!("{step}: region {}: no inaccessible guard page within one page beyond the end of the allocation (found {g1}, {g2})", m.id));
        }
        // contents
        if let Some(v) = reg.view() {
            if v != &m.bytes[..] {
                let i = v.iter().zip(m.bytes.iter()).position(|(a, b)| a != b).unwrap_or(0);
                return Err(format!("{step}: region {} contents changed at byte {i} (got {:#04x}, expected {:#04x})", m.id, v[i], m.bytes[i]));
            }
        }
        Ok(())
    }

    fn check_all(&mut self, step: &str) -> Result<(), String> {
        let vmas = read_smaps();
        let mut want_lck = self.baseline_lck;
        for (r, m) in &self.regs {
            self.check_region(r, m, &vmas, step)?;
            if r.expect().1 && !m.bytes.is_empty() && !matches!(r, Reg::Gone) {
                let pages = (m.bytes.len() + self.page - 1) / self.page;
                want_lck += (pages * self.page / 1024) as u64;
            }
        }
        let got = vm_lck_kb();
        if got != want_lck {
            return Err(format!("{step}: process VmLck is {got} kB but the live Locked regions account for {want_lck} kB"));
        }
        Ok(())
    }

    /// C15 oracle: every release observed so far freed an all-zero block
    fn check_releases(&mut self, step: &str) -> Result<(), String> {
        let ev = events();
        for e in &ev[self.events_seen..] {
            if !e.alloc {
                self.stats.releases += 1;
                if e.nonzero != 0 {
                    return Err(format!("{step}: a {}-byte allocation at {:#x} was released to the system allocator with {} non-zero bytes", e.size, e.addr, e.nonzero));
                }
            }
        }
        self.events_seen = ev.len();
        Ok(())
    }

    fn probes(&mut self, idx: usize, step: &str) -> Result<(), String> {
        let (r, m) = &self.regs[idx];
        let len = m.bytes.len();
        if len == 0 || matches!(r, Reg::Gone) {
            return Ok(());
        }
        let p = self.page;
        let mut offs = vec![0usize, len - 1];
        for k in 1..=2 {
            if k * p < len {
                offs.push(k * p - 1);
                offs.push(k * p);
            }
        }
        offs.sort();
        offs.dedup();
        let (prot, _) = r.expect();
        let mut n = 0;
        for o in offs {
            let addr = m.ptr + o;
            match prot {
                Prot::RW => {
                    let w = probe(addr, Access::Write);
                    n += 1;
                    if w != ProbeResult::Ok {
                        return Err(format!("{step}: region {} is ReadWrite but a read+write of byte {o} ended with {w:?}", m.id));
                    }
                }
                Prot::RO => {
                    let rd = probe(addr, Access::Read);
                    let w = probe_write_only(addr);
                    n += 2;
                    if rd != ProbeResult::Ok {
                        return Err(format!("{step}: region {} is ReadOnly but reading byte {o} ended with {rd:?}", m.id));
                    }
                    if w != ProbeResult::Faulted {
                        return Err(format!("{step}: region {} ({len} bytes) is ReadOnly but a write to byte {o} did NOT fault ({w:?})", m.id));
                    }
                }
                Prot::NA => {
                    let rd = probe(addr, Access::Read);
                    n += 1;
                    if rd != ProbeResult::Faulted {
                        return Err(format!("{step}: region {} ({len} bytes) is NoAccess but reading byte {o} did NOT fault ({rd:?})", m.id));
                    }
                }
            }
        }
        self.stats.probes += n;
        Ok(())
    }

    fn new_region(&mut self, ctor: Ctor, len: usize, step: &str) -> Result<(), String> {
        if self.regs.iter().filter(|(r, _)| !matches!(r, Reg::Gone)).count() >= 3 {
            return Ok(());
        }
        let id = self.next_id;
        self.next_id += 1;
        let data = pattern(id, 0, len);
        let live_before = self.regs.iter().any(|(r, _)| !matches!(r, Reg::Gone));
        let will_refuse = self.refusing_now();
        let reg: Result<Reg<A>, String> = match ctor {
            Ctor::FromSliceLocked => caught("from_slice_into_locked", || A::from_slice_locked(&data))?.map(Reg::L),
            Ctor::FromSliceROLocked => caught("from_slice_into_readonly_locked", || A::from_slice_ro_locked(&data))?.map(Reg::LRO),
            Ctor::NewLockedFill => {
                if A::FIXED.is_none() && will_refuse {
                    // new_locked() on an empty resizable container never calls mlock; the following resize is not a
                    // Result-returning call (outside C19's statement), so it is not generated at or after the fault point
                    return Ok(());
                }
                caught("new_locked", || A::new_locked_fill(&data))?.map(Reg::L)
            }
            Ctor::PlainThenMlock => caught("Lockable::mlock", || A::make(&data).mlock().map_err(es))?.map(Reg::L),
            Ctor::Plain => Ok(Reg::Plain(A::make(&data))),
            Ctor::StackMlock => match caught("StackByteArray::mlock", || A::stack_mlock(&data))? {
                Some(r) => r.map(Reg::L),
                None => return Ok(()),
            },
            Ctor::StackReadOnly => match caught("StackByteArray::mprotect_readonly", || A::stack_readonly(&data))? {
                Some(r) => r.map(Reg::URO),
                None => return Ok(()),
            },
            Ctor::GenLocked => caught("gen_locked", || A::gen_locked().map_err(es))?.map(Reg::L),
            Ctor::GenROLocked => caught("gen_readonly_locked", || A::gen_readonly_locked().map_err(es))?.map(Reg::LRO),
        };
        match reg {
            Err(e) => {
                self.stats.err_transitions += 1;
                if matches!(self.mode, Mode::C19 { .. }) && MLOCK_REFUSED.load(Ordering::SeqCst) > 0 {
                    if live_before {
                        self.stats.fault_reached_with_live_regions = true;
                    }
                    Ok(())
                } else if len == 0 || !matches!(self.mode, Mode::C19 { .. }) {
                    Err(format!("{step}: constructor {ctor:?} for {len} bytes failed without any injected fault: {e}"))
                } else {
                    Ok(())
                }
            }
            Ok(r) => {
                let (bytes, ptr) = match r.view() {
                    Some(v) => (v.to_vec(), v.as_ptr() as usize),
                    None => (data.clone(), 0),
                };
                if !matches!(ctor, Ctor::GenLocked | Ctor::GenROLocked) && bytes != data {
                    return Err(format!("{step}: constructor {ctor:?} did not preserve the {len} source bytes"));
                }
                if matches!(ctor, Ctor::GenLocked | Ctor::GenROLocked) && A::FIXED.is_none() && !bytes.is_empty() {
                    return Err(format!("{step}: harness: gen on a resizable container produced bytes"));
                }
                self.visited.push((ptr, bytes.len()));
                self.note_state(&r, bytes.len());
                self.regs.push((r, Model { id, bytes, ptr }));
                Ok(())
            }
        }
    }

    fn apply(&mut self, op: &Op, stepno: usize) -> Result<(), String> {
        let step = format!("step {stepno} {op:?}");
        self.stats.steps += 1;
        let live: Vec<usize> = self.regs.iter().enumerate().filter(|(_, (r, _))| !matches!(r, Reg::Gone)).map(|(i, _)| i).collect();
        let pick = |k: usize| -> Option<usize> {
            if live.is_empty() {
                None
            } else {
                Some(live[k % live.len()])
            }
        };
        let mut touched: Option<usize> = None;
        match op {
            Op::New { ctor, len_idx } => {
                let len = A::FIXED.unwrap_or(BYTES_LENGTHS[len_idx % BYTES_LENGTHS.len()]);
                self.new_region(*ctor, len, &step)?;
                touched = self.regs.len().checked_sub(1);
            }
            Op::Lock(k) | Op::Unlock(k) | Op::ReadOnly(k) | Op::ReadWrite(k) | Op::NoAccess(k) => {
                let Some(i) = pick(*k) else { return Ok(()) };
                let live_others = live.len() > 1;
                let old = std::mem::replace(&mut self.regs[i].0, Reg::Gone);
                let before_refused = MLOCK_REFUSED.load(Ordering::SeqCst);
                macro_rules! trans {
                    ($p:expr, $call:ident, $wrap:path, $what:expr) => {{
                        match caught($what, || $p.$call())? {
                            Ok(n) => $wrap(n),
                            Err(e) => {
                                self.stats.err_transitions += 1;
                                let _ = e;
                                Reg::Gone
                            }
                        }
                    }};
                }
                let is_protect = matches!(op, Op::ReadOnly(_) | Op::ReadWrite(_) | Op::NoAccess(_));
                let new = match (op, old) {
                    (Op::Lock(_), Reg::Plain(a)) => trans!(a, mlock, Reg::L, "Lockable::mlock"),
                    (Op::Lock(_), Reg::U(p)) => trans!(p, mlock, Reg::L, "Lock::mlock"),
                    (Op::Lock(_), Reg::URO(p)) => trans!(p, mlock, Reg::LRO, "Lock::mlock"),
                    (Op::Lock(_), Reg::UNA(p)) => trans!(p, mlock, Reg::LNA, "Lock::mlock"),
                    (Op::Unlock(_), Reg::L(p)) => trans!(p, munlock, Reg::U, "Unlock::munlock"),
                    (Op::Unlock(_), Reg::LRO(p)) => trans!(p, munlock, Reg::URO, "Unlock::munlock"),
                    (Op::Unlock(_), Reg::LNA(p)) => trans!(p, munlock, Reg::UNA, "Unlock::munlock"),
                    (Op::Unlock(_), Reg::U(p)) => trans!(p, munlock, Reg::U, "Unlock::munlock"),
                    (Op::Unlock(_), Reg::URO(p)) => trans!(p, munlock, Reg::URO, "Unlock::munlock"),
                    (Op::ReadOnly(_), Reg::U(p)) => trans!(p, mprotect_readonly, Reg::URO, "mprotect_readonly"),
                    (Op::ReadOnly(_), Reg::URO(p)) => trans!(p, mprotect_readonly, Reg::URO, "mprotect_readonly"),
                    (Op::ReadOnly(_), Reg::UNA(p)) => trans!(p, mprotect_readonly, Reg::URO, "mprotect_readonly"),
                    (Op::ReadOnly(_), Reg::L(p)) => trans!(p, mprotect_readonly, Reg::LRO, "mprotect_readonly"),
                    (Op::ReadOnly(_), Reg::LRO(p)) => trans!(p, mprotect_readonly, Reg::LRO, "mprotect_readonly"),
                    (Op::ReadOnly(_), Reg::LNA(p)) => trans!(p, mprotect_readonly, Reg::LRO, "mprotect_readonly"),
                    (Op::ReadWrite(_), Reg::U(p)) => trans!(p, mprotect_readwrite, Reg::U, "mprotect_readwrite"),
                    (Op::ReadWrite(_), Reg::URO(p)) => trans!(p, mprotect_readwrite, Reg::U, "mprotect_readwrite"),
                    (Op::ReadWrite(_), Reg::UNA(p)) => trans!(p, mprotect_readwrite, Reg::U, "mprotect_readwrite"),
                    (Op::ReadWrite(_), Reg::L(p)) => trans!(p, mprotect_readwrite, Reg::L, "mprotect_readwrite"),
                    (Op::ReadWrite(_), Reg::LRO(p)) => trans!(p, mprotect_readwrite, Reg::L, "mprotect_readwrite"),
                    (Op::ReadWrite(_), Reg::LNA(p)) => trans!(p, mprotect_readwrite, Reg::L, "mprotect_readwrite"),
                    (Op::NoAccess(_), Reg::U(p)) => trans!(p, mprotect_noaccess, Reg::UNA, "mprotect_noaccess"),
                    (Op::NoAccess(_), Reg::URO(p)) => trans!(p, mprotect_noaccess, Reg::UNA, "mprotect_noaccess"),
                    (Op::NoAccess(_), Reg::UNA(p)) => trans!(p, mprotect_noaccess, Reg::UNA, "mprotect_noaccess"),
                    // not offered by the types in this state: leave the region as it is
                    (_, other) => other,
                };
                if matches!(new, Reg::Gone) {
                    let len = self.regs[i].1.bytes.len();
                    let injected = MLOCK_REFUSED.load(Ordering::SeqCst) > before_refused;
                    let lock_of_noaccess = matches!(op, Op::Lock(_));
                    if injected {
                        if live_others {
                            self.stats.fault_reached_with_live_regions = true;
                        }
                    } else if !(lock_of_noaccess) && len > 0 {
                        // an mlock of a no-access region may legitimately fail; anything else failing without an
                        // injected fault is unexpected on Linux
                        return Err(format!("{step}: transition returned Err without any injected fault"));
                    }
                } else {
                    if is_protect {
                        self.stats.protect_transitions += 1;
                    } else {
                        self.stats.lock_transitions += 1;
                    }
                    let len = self.regs[i].1.bytes.len();
                    self.note_state(&new, len);
                }
                self.regs[i].0 = new;
                touched = Some(i);
            }
            Op::Clone(k) => {
                let Some(i) = pick(*k) else { return Ok(()) };
                if live.len() >= 3 {
                    return Ok(());
                }
                let locked_src = self.regs[i].0.expect().1;
                // Clone does not return a Result: at / after the fault point a panic is allowed, but the source region
                // was created earlier and must stay valid (check_all below re-examines it)
                let allowed_to_panic = locked_src && self.refusing_now();
                let c: Option<Reg<A>> = if allowed_to_panic {
                    no_panic(|| match &self.regs[i].0 {
                        Reg::L(p) => A::clone_locked(p).map(Reg::L),
                        Reg::LRO(p) => A::clone_locked_ro(p).map(Reg::LRO),
                        _ => None,
                    })
                    .unwrap_or(None)
                } else {
                    match &self.regs[i].0 {
                    Reg::Plain(a) => Some(Reg::Plain(caught("HeapBytes::clone", || a.clone())?)),
                    Reg::U(p) => Some(Reg::U(caught("Unlocked::clone", || p.clone())?)),
                    Reg::URO(p) => Some(Reg::URO(caught("UnlockedRO::clone", || p.clone())?)),
                    Reg::L(p) => caught("Locked::clone", || A::clone_locked(p))?.map(Reg::L),
                    Reg::LRO(p) => caught("LockedRO::clone", || A::clone_locked_ro(p))?.map(Reg::LRO),
                    _ => None,
                    }
                };
                if let Some(c) = c {
                    let id = self.next_id;
                    self.next_id += 1;
                    let bytes = self.regs[i].1.bytes.clone();
                    let ptr = c.view().map(|v| v.as_ptr() as usize).unwrap_or(0);
                    if c.view().map(|v| v.to_vec()) != Some(bytes.clone()) {
                        return Err(format!("{step}: clone of region {} does not hold the same bytes", self.regs[i].1.id));
                    }
                    if !bytes.is_empty() && ptr == self.regs[i].1.ptr {
                        return Err(format!("{step}: clone shares memory with the original"));
                    }
                    if locked_src {
                        self.stats.clone_or_resize_of_locked += 1;
                    }
                    self.visited.push((ptr, bytes.len()));
                    self.note_state(&c, bytes.len());
                    self.regs.push((c, Model { id, bytes, ptr }));
                    touched = Some(self.regs.len() - 1);
                }
            }
            Op::Resize(k, li) => {
                let Some(i) = pick(*k) else { return Ok(()) };
                let n = BYTES_LENGTHS[li % BYTES_LENGTHS.len()];
                let fillv = if (stepno + li) % 4 == 0 { 0 } else { 1 + (stepno % 200) as u8 }; // zero fill too: a zero-fill grow must really write zeros
                let is_locked = matches!(self.regs[i].0, Reg::L(_));
                let mut pre: Option<bool> = None;
                if is_locked && self.refusing_now() {
                    // Locked::resize does not return a Result, so a panic on a refused lock is allowed - but the
                    // region it was called on was created earlier and must stay valid: usable, same type state,
                    // and either resized or (after a panic) with its old length and contents
                    let old_len = self.regs[i].1.bytes.len();
                    let r = match &mut self.regs[i].0 {
                        Reg::L(p) => no_panic(|| A::resize_locked(p, n, fillv)),
                        _ => return Ok(()),
                    };
                    match r {
                        Ok(d) => pre = Some(d),
                        Err(_) => {
                            let after = no_panic(|| self.regs[i].0.view().map(|v| v.len()));
                            match after {
                                Err(p) => return Err(format!("Locked::resize panicked on a refused lock (allowed) but left the region it was called on unusable: as_slice panicked: {p} at {}", last_panic_loc())),
                                Ok(Some(l)) if l == old_len => {
                                    self.stats.clone_or_resize_of_locked += 1;
                                    touched = Some(i);
                                    pre = Some(false);
                                }
                                Ok(l) => return Err(format!("Locked::resize panicked on a refused lock (allowed) but the region it was called on now reports length {l:?} (was {old_len})")),
                            }
                        }
                    }
                }
                let done = match pre {
                    Some(d) => d,
                    None => match &mut self.regs[i].0 {
                        Reg::Plain(a) => caught("HeapBytes::resize", || A::resize_plain(a, n, fillv))?,
                        Reg::U(p) => caught("Unlocked::resize", || A::resize_unlocked(p, n, fillv))?,
                        Reg::L(p) => caught("Locked::resize", || A::resize_locked(p, n, fillv))?,
                        _ => false,
                    },
                };
                if done {
                    let m = &mut self.regs[i].1;
                    m.bytes.resize(n, fillv);
                    let v = self.regs[i].0.view().unwrap();
                    self.regs[i].1.ptr = v.as_ptr() as usize;
                    let (ptr, l) = (self.regs[i].1.ptr, n);
                    self.visited.push((ptr, l));
                    if is_locked {
                        self.stats.clone_or_resize_of_locked += 1;
                    }
                    let r = std::mem::replace(&mut self.regs[i].0, Reg::Gone);
                    self.note_state(&r, n);
                    self.regs[i].0 = r;
                    touched = Some(i);
                }
            }
            Op::Write(k, pos, val) => {
                let Some(i) = pick(*k) else { return Ok(()) };
                let len = self.regs[i].1.bytes.len();
                if len == 0 {
                    return Ok(());
                }
                let pos = pos % len;
                let val = if *val == 0 { 1 } else { *val };
                let ok = match &mut self.regs[i].0 {
                    Reg::Plain(a) => {
                        a.as_mut_slice()[pos] = val;
                        true
                    }
                    Reg::U(p) => {
                        p.as_mut_slice()[pos] = val;
                        true
                    }
                    Reg::L(p) => {
                        p.as_mut_slice()[pos] = val;
                        true
                    }
                    _ => false,
                };
                if ok {
                    self.regs[i].1.bytes[pos] = val;
                }
            }
            Op::Drop(k) => {
                let Some(i) = pick(*k) else { return Ok(()) };
                let r = std::mem::replace(&mut self.regs[i].0, Reg::Gone);
                if !matches!(r, Reg::Plain(_)) {
                    self.expected_release_nonplain = true;
                }
                caught("drop", move || drop(r))?;
            }
            Op::DropUnwinding(k) => {
                let Some(i) = pick(*k) else { return Ok(()) };
                let r = std::mem::replace(&mut self.regs[i].0, Reg::Gone);
                let res = std::panic::catch_unwind(std::panic::AssertUnwindSafe(move || {
                    let _held = r;
                    panic!("deliberate unwind while a protected region is alive");
                }));
                if res.is_ok() {
                    return Err(format!("{step}: harness: the deliberate panic did not unwind"));
                }
            }
            Op::Wrapper(sel) => {
                let live_before = !live.is_empty();
                let before_refused = MLOCK_REFUSED.load(Ordering::SeqCst);
                let r: Result<(), String> = match sel % 7 {
                    0 => caught("KeyPair::new_locked_keypair", || dryoc::keypair::KeyPair::new_locked_keypair().map(|_| ()).map_err(es))?,
                    1 => caught("KeyPair::gen_locked_keypair", || dryoc::keypair::KeyPair::gen_locked_keypair().map(|_| ()).map_err(es))?,
                    2 => caught("KeyPair::gen_readonly_locked_keypair", || dryoc::keypair::KeyPair::gen_readonly_locked_keypair().map(|_| ()).map_err(es))?,
                    3 => caught("SigningKeyPair::gen_locked_keypair", || dryoc::sign::SigningKeyPair::gen_locked_keypair().map(|_| ()).map_err(es))?,
                    4 => caught("SigningKeyPair::gen_readonly_locked_keypair", || dryoc::sign::SigningKeyPair::gen_readonly_locked_keypair().map(|_| ()).map_err(es))?,
                    5 => caught("PrecalcSecretKey::precalculate_locked", || dryoc::precalc::PrecalcSecretKey::precalculate_locked(&[9u8; 32], &[7u8; 32]).map(|_| ()).map_err(es))?,
                    _ => caught("PrecalcSecretKey::precalculate_readonly_locked", || dryoc::precalc::PrecalcSecretKey::precalculate_readonly_locked(&[9u8; 32], &[7u8; 32]).map(|_| ()).map_err(es))?,
                };
                if let Err(e) = r {
                    if MLOCK_REFUSED.load(Ordering::SeqCst) > before_refused {
                        self.stats.err_transitions += 1;
                        if live_before {
                            self.stats.fault_reached_with_live_regions = true;
                        }
                    } else {
                        return Err(format!("{step}: wrapper constructor failed without any injected fault: {e}"));
                    }
                }
            }
            Op::HighLevel(which) => {
                if matches!(self.mode, Mode::C15) {
                    caught("high-level operation", || high_level(*which, &mut self.fill))??;
                }
            }
            Op::Deserialize(sel, li) => {
                // serde's Deserialize returns a Result: a refused lock must surface as Err, never as a panic
                let n = [0usize, 1, 16, 32, 100, 5000][li % 6];
                let data = pattern(77, *sel, n);
                let live_before = !live.is_empty();
                let before_refused = MLOCK_REFUSED.load(Ordering::SeqCst);
                let r: Result<usize, String> = match sel % 4 {
                    0 => caught("serde_json -> LockedBytes", || serde_json::from_str::<LockedBytes>(&serde_json::to_string(&data).unwrap()).map(|v| v.len()).map_err(|e| e.to_string()))?,
                    1 => caught("bincode -> LockedBytes", || bincode::deserialize::<LockedBytes>(&bincode::serialize(&BytesLike(&data)).unwrap()).map(|v| v.len()).map_err(|e| e.to_string()))?,
                    2 => {
                        let d32 = pattern(78, *sel, 32);
                        caught("serde_json -> Locked<HeapByteArray<32>>", || serde_json::from_str::<Locked<HeapByteArray<32>>>(&serde_json::to_string(&d32).unwrap()).map(|v| v.len()).map_err(|e| e.to_string()))?
                    }
                    _ => {
                        let d32 = pattern(79, *sel, 32);
                        caught("bincode -> Locked<HeapByteArray<32>>", || bincode::deserialize::<Locked<HeapByteArray<32>>>(&bincode::serialize(&BytesLike(&d32)).unwrap()).map(|v| v.len()).map_err(|e| e.to_string()))?
                    }
                };
                match r {
                    Ok(_) => {}
                    Err(e) => {
                        if MLOCK_REFUSED.load(Ordering::SeqCst) > before_refused {
                            self.stats.err_transitions += 1;
                            if live_before {
                                self.stats.fault_reached_with_live_regions = true;
                            }
                        } else {
                            return Err(format!("{step}: deserialising its own encoding into locked memory failed without any injected fault: {e}"));
                        }
                    }
                }
            }
        }
        match self.mode {
            Mode::C14 => {
                self.check_all(&step)?;
                if let Some(i) = touched {
                    self.probes(i, &step)?;
                }
            }
            Mode::C15 => self.check_releases(&step)?,
            Mode::C19 { .. } => {
                self.check_all(&step)?;
                self.check_releases(&step)?;
            }
        }
        Ok(())
    }

    fn finish(&mut self) -> Result<(), String> {
        // drop everything that is still alive
        for i in 0..self.regs.len() {
            let r = std::mem::replace(&mut self.regs[i].0, Reg::Gone);
            caught("drop", move || drop(r))?;
        }
        if !matches!(self.mode, Mode::C14) {
            self.check_releases("after the last drop")?;
        }
        let ev = events();
        let mut live: Vec<(usize, usize)> = vec![];
        for e in &ev {
            if e.alloc {
                live.push((e.addr, e.size));
            } else if let Some(p) = live.iter().position(|(a, s)| *a == e.addr && *s == e.size) {
                live.remove(p);
            } else {
                return Err(format!("release of {:#x}/{} that was never allocated (or allocated with another size)", e.addr, e.size));
            }
        }
        if !live.is_empty() {
            return Err(format!("{} page-aligned allocations were never released after the last handle was dropped", live.len()));
        }
        if ev.iter().filter(|e| e.alloc).count() == 0 && self.visited.iter().any(|(_, l)| *l > 0) {
            return Err("harness: the allocation observer saw nothing (hook disconnected?)".into());
        }
        let lck = vm_lck_kb();
        if lck != self.baseline_lck {
            return Err(format!("after the last drop the process still holds {} kB of locked memory (baseline {} kB)", lck, self.baseline_lck));
        }
        let vmas = read_smaps();
        let p = self.page;
        for (ptr, len) in &self.visited {
            if *len == 0 || *ptr == 0 {
                continue;
            }
            let first = ptr / p * p - p;
            let last = (ptr + len - 1) / p * p + 2 * p;
            let mut a = first;
            while a <= last {
                if let Some(v) = vma_of(&vmas, a) {
                    // pages re-used by the allocator must be ordinary heap pages again
                    if v.perms != "rw-p" && !v.perms.starts_with("r-x") && !(v.perms == "---p" && is_live_guard(&vmas, a)) {
                        return Err(format!("after the last drop page {a:#x} (formerly part of a protected region) still has rights {}", v.perms));
                    }
                    if v.locked_flag {
                        return Err(format!("after the last drop page {a:#x} is still locked in RAM"));
                    }
                }
                a += p;
            }
        }
        self.stats.mlock_calls = MLOCK_CALLS.load(Ordering::SeqCst);
        self.stats.mlock_refused = MLOCK_REFUSED.load(Ordering::SeqCst);
        Ok(())
    }
}

/// glibc itself keeps PROT_NONE pages (heap arena reservations, thread stacks guard): a `---p` page
/// is only a leftover if it is not part of such a reservation. All our regions are freed at this
/// point, so any remaining `---p` page inside a visited range would be a leftover guard/no-access page.
fn is_live_guard(_vmas: &[Vma], _a: usize) -> bool {
    false
}

struct BytesLike<'a>(&'a [u8]);
impl serde::Serialize for BytesLike<'_> {
    fn serialize<S: serde::Serializer>(&self, s: S) -> Result<S::Ok, S::Error> {
        s.serialize_bytes(self.0)
    }
}

/// many simultaneously live heap containers (more than any fixed-size bookkeeping table would hold), some of them
/// grown (reallocation) or truncated while the others are alive, then all dropped
fn burst(which: usize) -> Result<(), String> {
    let n = [70usize, 140, 300][which % 3];
    let mut live: Vec<HeapBytes> = Vec::with_capacity(n);
    for i in 0..n {
        let len = 1 + (i * 37 + which) % 700;
        let mut h = HeapBytes::default();
        h.resize(len, 0);
        h.as_mut_slice().copy_from_slice(&pattern(100, i, len));
        live.push(h);
    }
    live[n / 2].resize(5000, 7);
    live[n - 1].resize(3, 0);
    live[n - 2].resize(0, 0);
    while let Some(h) = live.pop() {
        drop(h);
    }
    Ok(())
}

fn high_level(which: usize, f: &mut Fill) -> Result<(), String> {
    if which >= 100 {
        return burst(which);
    }
    use dryoc::dryocbox::DryocBox;
    use dryoc::dryocsecretbox::DryocSecretBox;
    use dryoc::dryocstream::{DryocStream, Tag};
    let msg = HeapBytes::from_slice_into_locked(&pattern(99, which, 1 + which * 97 % 5000)).map_err(es)?;
    match which % 5 {
        0 => {
            let key = HeapByteArray::<32>::gen_locked().map_err(es)?;
            let nonce = HeapByteArray::<24>::gen_readonly_locked().map_err(es)?;
            let b: DryocSecretBox<Locked<HeapByteArray<16>>, LockedBytes> = DryocSecretBox::encrypt(&msg, &nonce, &key);
            let pt: LockedBytes = b.decrypt(&nonce, &key).map_err(es)?;
            if pt.as_slice() != msg.as_slice() {
                return Err("locked secretbox round trip".into());
            }
        }
        1 => {
            let kp = dryoc::keypair::KeyPair::gen_locked_keypair().map_err(es)?;
            let nonce = HeapByteArray::<24>::gen();
            let b: DryocBox<Locked<HeapByteArray<32>>, Locked<HeapByteArray<16>>, LockedBytes> = DryocBox::encrypt(&msg, &nonce, &kp.public_key, &kp.secret_key).map_err(es)?;
            let v: HeapBytes = b.to_bytes();
            drop(v);
            let s: DryocBox<HeapByteArray<32>, HeapByteArray<16>, HeapBytes> = DryocBox::seal(&msg, &kp.public_key).map_err(es)?;
            let pt: LockedBytes = s.unseal(&kp).map_err(es)?;
            drop(pt);
        }
        2 => {
            let key = HeapByteArray::<32>::gen_readonly_locked().map_err(es)?;
            let (mut push, header): (_, Locked<HeapByteArray<24>>) = DryocStream::init_push(&key);
            let c: LockedBytes = push.push(&msg, None, Tag::MESSAGE).map_err(es)?;
            let mut pull = DryocStream::init_pull(&key, &header);
            let (m, _): (LockedBytes, Tag) = pull.pull(&c, None).map_err(es)?;
            drop(m);
        }
        3 => {
            let cfg = dryoc::pwhash::Config::interactive().with_opslimit(1).with_memlimit(8192);
            let h = dryoc::pwhash::PwHash::<Locked<HeapBytes>, Locked<HeapBytes>>::hash(&msg, cfg).map_err(es)?;
            h.verify(&msg).map_err(es)?;
        }
        _ => {
            let kdf = dryoc::kdf::Kdf::<Locked<HeapByteArray<32>>, Locked<HeapByteArray<8>>>::gen();
            let sk: Locked<HeapByteArray<32>> = kdf.derive_subkey(f.next_u64()).map_err(es)?;
            let h: HeapByteArray<64> = dryoc::sha512::Sha512::compute(sk.as_slice());
            drop(h);
        }
    }
    Ok(())
}

fn run_typed<A: Container>(h: &History, mode: Mode) -> Result<RunStats, String> {
    MLOCK_CALLS.store(0, Ordering::SeqCst);
    MLOCK_REFUSED.store(0, Ordering::SeqCst);
    if let Mode::C19 { refuse_from, errno } = mode {
        MLOCK_REFUSE_FROM.store(refuse_from, Ordering::SeqCst);
        MLOCK_ERRNO.store(if errno == 0 { libc::ENOMEM as i64 } else { errno as i64 }, Ordering::SeqCst);
    } else {
        MLOCK_REFUSE_FROM.store(0, Ordering::SeqCst);
    }
    install_observers();
    let mut ex: Exec<A> = Exec {
        regs: vec![],
        mode,
        page: page_size(),
        baseline_lck: vm_lck_kb(),
        visited: vec![],
        next_id: 1,
        fill: Fill::new(h.fill, "prot"),
        events_seen: events_len(),
        stats: RunStats::default(),
        expected_release_nonplain: false,
    };
    for (i, op) in h.ops.iter().enumerate() {
        ex.apply(op, i)?;
    }
    ex.finish()?;
    MLOCK_REFUSE_FROM.store(0, Ordering::SeqCst);
    Ok(ex.stats)
}

pub fn run_history(h: &History, mode: Mode) -> Result<RunStats, String> {
    if page_size() != 4096 && h.array_len.map_or(false, |n| n > 64) {
        return Err("harness: page size is not 4096; page-relative array lengths are not instantiated".into());
    }
    match h.array_len {
        None => run_typed::<HeapBytes>(h, mode),
        Some(0) => run_typed::<HeapByteArray<0>>(h, mode),
        Some(1) => run_typed::<HeapByteArray<1>>(h, mode),
        Some(16) => run_typed::<HeapByteArray<16>>(h, mode),
        Some(32) => run_typed::<HeapByteArray<32>>(h, mode),
        Some(64) => run_typed::<HeapByteArray<64>>(h, mode),
        Some(4095) => run_typed::<HeapByteArray<4095>>(h, mode),
        Some(4096) => run_typed::<HeapByteArray<4096>>(h, mode),
        Some(4097) => run_typed::<HeapByteArray<4097>>(h, mode),
        Some(8192) => run_typed::<HeapByteArray<8192>>(h, mode),
        Some(8193) => run_typed::<HeapByteArray<8193>>(h, mode),
        Some(n) => Err(format!("harness: no instantiation for HeapByteArray<{n}>")),
    }
}

/// Outcome of a history executed in a forked child.
pub enum Outcome {
    Pass(RunStats),
    Fail(String),
    /// timeout or harness trouble: inconclusive, never a violation
    Inconclusive(String),
}

pub fn run_in_child(h: &History, mode: Mode) -> Outcome {
    let (code, text) = in_child(30, || match run_history(h, mode) {
        Ok(st) => (0, serde_json::to_string(&st).unwrap_or_default()),
        Err(m) => {
            if m.starts_with("harness:") {
                (2, m)
            } else {
                (1, m)
            }
        }
    });
    match code {
        0 => match serde_json::from_str::<RunStats>(&text) {
            Ok(st) => Outcome::Pass(st),
            Err(_) => Outcome::Inconclusive(format!("unreadable child report: {text}")),
        },
        1 => Outcome::Fail(text),
        c if c == -(libc::SIGALRM) => Outcome::Inconclusive("history timed out".into()),
        c if c < 0 && c > -1000 => Outcome::Fail(format!("the process running the history was killed by signal {} (a safe-API sequence crashed)", -c)),
        _ => Outcome::Inconclusive(format!("child exit {code}: {text}")),
    }
}
