//! Spec-level reference models, written from the RFCs/standards, independent of dryoc and libsodium.
//! Each is pinned by published vectors in `self_test()`; a failure there is a harness error (exit 2).
use num_bigint::BigUint;
use num_traits::{One, Zero};

// ------------------------------------------------------------------ BLAKE2b (RFC 7693)
const B2_IV: [u64; 8] = [
    0x6a09e667f3bcc908, 0xbb67ae8584caa73b, 0x3c6ef372fe94f82b, 0xa54ff53a5f1d36f1,
    0x510e527fade682d1, 0x9b05688c2b3e6c1f, 0x1f83d9abfb41bd6b, 0x5be0cd19137e2179,
];
const B2_SIGMA: [[usize; 16]; 10] = [
    [0, 1, 2, 3, 4, 5, 6, 7, 8, 9, 10, 11, 12, 13, 14, 15],
    [14, 10, 4, 8, 9, 15, 13, 6, 1, 12, 0, 2, 11, 7, 5, 3],
    [11, 8, 12, 0, 5, 2, 15, 13, 10, 14, 3, 6, 7, 1, 9, 4],
    [7, 9, 3, 1, 13, 12, 11, 14, 2, 6, 5, 10, 4, 0, 15, 8],
    [9, 0, 5, 7, 2, 4, 10, 15, 14, 1, 11, 12, 6, 8, 3, 13],
    [2, 12, 6, 10, 0, 11, 8, 3, 4, 13, 7, 5, 15, 14, 1, 9],
    [12, 5, 1, 15, 14, 13, 4, 10, 0, 7, 6, 3, 9, 2, 8, 11],
    [13, 11, 7, 14, 12, 1, 3, 9, 5, 0, 15, 4, 8, 6, 2, 10],
    [6, 15, 14, 9, 11, 3, 0, 8, 12, 2, 13, 7, 1, 4, 10, 5],
    [10, 2, 8, 4, 7, 6, 1, 5, 15, 11, 9, 14, 3, 12, 13, 0],
];

fn b2_f(h: &mut [u64; 8], block: &[u8], t: u128, last: bool) {
    let mut m = [0u64; 16];
    for i in 0..16 {
        m[i] = u64::from_le_bytes(block[i * 8..i * 8 + 8].try_into().unwrap());
    }
    let mut v = [0u64; 16];
    v[..8].copy_from_slice(h);
    v[8..].copy_from_slice(&B2_IV);
    v[12] ^= t as u64;
    v[13] ^= (t >> 64) as u64;
    if last {
        v[14] = !v[14];
    }
    fn g(v: &mut [u64; 16], a: usize, b: usize, c: usize, d: usize, x: u64, y: u64) {
        v[a] = v[a].wrapping_add(v[b]).wrapping_add(x);
        v[d] = (v[d] ^ v[a]).rotate_right(32);
        v[c] = v[c].wrapping_add(v[d]);
        v[b] = (v[b] ^ v[c]).rotate_right(24);
        v[a] = v[a].wrapping_add(v[b]).wrapping_add(y);
        v[d] = (v[d] ^ v[a]).rotate_right(16);
        v[c] = v[c].wrapping_add(v[d]);
        v[b] = (v[b] ^ v[c]).rotate_right(63);
    }
    for r in 0..12 {
        let s = &B2_SIGMA[r % 10];
        g(&mut v, 0, 4, 8, 12, m[s[0]], m[s[1]]);
        g(&mut v, 1, 5, 9, 13, m[s[2]], m[s[3]]);
        g(&mut v, 2, 6, 10, 14, m[s[4]], m[s[5]]);
        g(&mut v, 3, 7, 11, 15, m[s[6]], m[s[7]]);
        g(&mut v, 0, 5, 10, 15, m[s[8]], m[s[9]]);
        g(&mut v, 1, 6, 11, 12, m[s[10]], m[s[11]]);
        g(&mut v, 2, 7, 8, 13, m[s[12]], m[s[13]]);
        g(&mut v, 3, 4, 9, 14, m[s[14]], m[s[15]]);
    }
    for i in 0..8 {
        h[i] ^= v[i] ^ v[i + 8];
    }
}

/// BLAKE2b with the full sequential parameter block (salt and personalisation).
pub fn blake2b(outlen: usize, key: &[u8], salt: &[u8; 16], personal: &[u8; 16], msg: &[u8]) -> Vec<u8> {
    assert!((1..=64).contains(&outlen) && key.len() <= 64);
    let mut p = [0u8; 64];
    p[0] = outlen as u8;
    p[1] = key.len() as u8;
    p[2] = 1;
    p[3] = 1;
    p[32..48].copy_from_slice(salt);
    p[48..64].copy_from_slice(personal);
    let mut h = B2_IV;
    for i in 0..8 {
        h[i] ^= u64::from_le_bytes(p[i * 8..i * 8 + 8].try_into().unwrap());
    }
    let mut data = Vec::with_capacity(128 + msg.len());
    if !key.is_empty() {
        data.extend_from_slice(key);
        data.resize(128, 0);
    }
    data.extend_from_slice(msg);
    let total = data.len();
    let nblocks = if total == 0 { 1 } else { (total + 127) / 128 };
    data.resize(nblocks * 128, 0);
    for i in 0..nblocks {
        let last = i == nblocks - 1;
        let t = if last { total as u128 } else { ((i + 1) * 128) as u128 };
        b2_f(&mut h, &data[i * 128..(i + 1) * 128], t, last);
    }
    let mut out = Vec::with_capacity(64);
    for w in h {
        out.extend_from_slice(&w.to_le_bytes());
    }
    out.truncate(outlen);
    out
}

pub fn blake2b_simple(outlen: usize, key: &[u8], msg: &[u8]) -> Vec<u8> {
    blake2b(outlen, key, &[0; 16], &[0; 16], msg)
}

// ------------------------------------------------------------------ SHA-512 (FIPS 180-4)
fn primes(n: usize) -> Vec<u64> {
    let mut v = vec![];
    let mut c = 2u64;
    while v.len() < n {
        if (2..c).take_while(|d| d * d <= c).all(|d| c % d != 0) {
            v.push(c);
        }
        c += 1;
    }
    v
}

struct ShaConst {
    k: [u64; 80],
    h0: [u64; 8],
}

fn sha_consts() -> &'static ShaConst {
    use std::sync::OnceLock;
    static C: OnceLock<ShaConst> = OnceLock::new();
    C.get_or_init(|| {
        // K[i] = first 64 bits of the fractional part of cbrt(prime_i); H0[i] likewise for sqrt.
        let ps = primes(80);
        let mask = (BigUint::one() << 64u32) - BigUint::one();
        let mut k = [0u64; 80];
        for (i, p) in ps.iter().enumerate() {
            let x = (BigUint::from(*p) << 192u32).cbrt() & &mask;
            k[i] = x.to_u64_digits().first().copied().unwrap_or(0);
        }
        let mut h0 = [0u64; 8];
        for i in 0..8 {
            let x = (BigUint::from(ps[i]) << 128u32).sqrt() & &mask;
            h0[i] = x.to_u64_digits().first().copied().unwrap_or(0);
        }
        ShaConst { k, h0 }
    })
}

pub fn sha512(msg: &[u8]) -> [u8; 64] {
    let c = sha_consts();
    let mut h = c.h0;
    let mut data = msg.to_vec();
    data.push(0x80);
    while data.len() % 128 != 112 {
        data.push(0);
    }
    data.extend_from_slice(&((msg.len() as u128) * 8).to_be_bytes());
    for block in data.chunks(128) {
        let mut w = [0u64; 80];
        for t in 0..16 {
            w[t] = u64::from_be_bytes(block[t * 8..t * 8 + 8].try_into().unwrap());
        }
        for t in 16..80 {
            let s0 = w[t - 15].rotate_right(1) ^ w[t - 15].rotate_right(8) ^ (w[t - 15] >> 7);
            let s1 = w[t - 2].rotate_right(19) ^ w[t - 2].rotate_right(61) ^ (w[t - 2] >> 6);
            w[t] = s1.wrapping_add(w[t - 7]).wrapping_add(s0).wrapping_add(w[t - 16]);
        }
        let mut v = h;
        for t in 0..80 {
            let (a, b, cc, _d, e, f, g, hh) = (v[0], v[1], v[2], v[3], v[4], v[5], v[6], v[7]);
            let s1 = e.rotate_right(14) ^ e.rotate_right(18) ^ e.rotate_right(41);
            let ch = (e & f) ^ (!e & g);
            let t1 = hh.wrapping_add(s1).wrapping_add(ch).wrapping_add(c.k[t]).wrapping_add(w[t]);
            let s0 = a.rotate_right(28) ^ a.rotate_right(34) ^ a.rotate_right(39);
            let maj = (a & b) ^ (a & cc) ^ (b & cc);
            let t2 = s0.wrapping_add(maj);
            v = [t1.wrapping_add(t2), a, b, cc, v[3].wrapping_add(t1), e, f, g];
        }
        for i in 0..8 {
            h[i] = h[i].wrapping_add(v[i]);
        }
    }
    let mut out = [0u8; 64];
    for i in 0..8 {
        out[i * 8..i * 8 + 8].copy_from_slice(&h[i].to_be_bytes());
    }
    out
}

/// HMAC-SHA-512-256 as libsodium's crypto_auth: HMAC-SHA-512 truncated to 32 bytes (RFC 2104 / 4231).
pub fn hmac_sha512_256(key: &[u8], msg: &[u8]) -> [u8; 32] {
    let mut k = [0u8; 128];
    if key.len() > 128 {
        k[..64].copy_from_slice(&sha512(key));
    } else {
        k[..key.len()].copy_from_slice(key);
    }
    let mut inner: Vec<u8> = k.iter().map(|b| b ^ 0x36).collect();
    inner.extend_from_slice(msg);
    let ih = sha512(&inner);
    let mut outer: Vec<u8> = k.iter().map(|b| b ^ 0x5c).collect();
    outer.extend_from_slice(&ih);
    let oh = sha512(&outer);
    oh[..32].try_into().unwrap()
}

// ------------------------------------------------------------------ SipHash-2-4
pub fn siphash24(key: &[u8; 16], msg: &[u8]) -> [u8; 8] {
    let k0 = u64::from_le_bytes(key[..8].try_into().unwrap());
    let k1 = u64::from_le_bytes(key[8..].try_into().unwrap());
    let mut v = [
        k0 ^ 0x736f6d6570736575,
        k1 ^ 0x646f72616e646f6d,
        k0 ^ 0x6c7967656e657261,
        k1 ^ 0x7465646279746573,
    ];
    fn round(v: &mut [u64; 4]) {
        v[0] = v[0].wrapping_add(v[1]);
        v[1] = v[1].rotate_left(13);
        v[1] ^= v[0];
        v[0] = v[0].rotate_left(32);
        v[2] = v[2].wrapping_add(v[3]);
        v[3] = v[3].rotate_left(16);
        v[3] ^= v[2];
        v[0] = v[0].wrapping_add(v[3]);
        v[3] = v[3].rotate_left(21);
        v[3] ^= v[0];
        v[2] = v[2].wrapping_add(v[1]);
        v[1] = v[1].rotate_left(17);
        v[1] ^= v[2];
        v[2] = v[2].rotate_left(32);
    }
    let mut chunks = msg.chunks_exact(8);
    for c in &mut chunks {
        let m = u64::from_le_bytes(c.try_into().unwrap());
        v[3] ^= m;
        round(&mut v);
        round(&mut v);
        v[0] ^= m;
    }
    let rem = chunks.remainder();
    let mut last = [0u8; 8];
    last[..rem.len()].copy_from_slice(rem);
    last[7] = msg.len() as u8;
    let m = u64::from_le_bytes(last);
    v[3] ^= m;
    round(&mut v);
    round(&mut v);
    v[0] ^= m;
    v[2] ^= 0xff;
    for _ in 0..4 {
        round(&mut v);
    }
    (v[0] ^ v[1] ^ v[2] ^ v[3]).to_le_bytes()
}

// ------------------------------------------------------------------ Poly1305 (RFC 8439 §2.5) on big integers
pub fn poly_p() -> BigUint {
    (BigUint::one() << 130u32) - BigUint::from(5u32)
}
pub fn poly_clamp_r(key: &[u8]) -> BigUint {
    let mut r = [0u8; 16];
    r.copy_from_slice(&key[..16]);
    r[3] &= 15;
    r[7] &= 15;
    r[11] &= 15;
    r[15] &= 15;
    r[4] &= 252;
    r[8] &= 252;
    r[12] &= 252;
    BigUint::from_bytes_le(&r)
}
pub fn poly1305(key: &[u8; 32], msg: &[u8]) -> [u8; 16] {
    let p = poly_p();
    let r = poly_clamp_r(key);
    let s = BigUint::from_bytes_le(&key[16..]);
    let mut acc = BigUint::zero();
    for c in msg.chunks(16) {
        let mut b = c.to_vec();
        b.push(1);
        acc = ((acc + BigUint::from_bytes_le(&b)) * &r) % &p;
    }
    let t = (acc + s) & ((BigUint::one() << 128u32) - BigUint::one());
    let mut out = [0u8; 16];
    let tb = t.to_bytes_le();
    out[..tb.len()].copy_from_slice(&tb);
    out
}
/// accumulator value (before adding s) after absorbing msg
pub fn poly1305_acc(key: &[u8; 32], msg: &[u8]) -> BigUint {
    let p = poly_p();
    let r = poly_clamp_r(key);
    let mut acc = BigUint::zero();
    for c in msg.chunks(16) {
        let mut b = c.to_vec();
        b.push(1);
        acc = ((acc + BigUint::from_bytes_le(&b)) * &r) % &p;
    }
    acc
}

// ------------------------------------------------------------------ HSalsa20 / HChaCha20
const SIGMA_CONST: [u8; 16] = *b"expand 32-byte k";

pub fn hsalsa20(input: &[u8; 16], key: &[u8; 32], c: Option<&[u8; 16]>) -> [u8; 32] {
    let c = c.unwrap_or(&SIGMA_CONST);
    let w = |b: &[u8], i: usize| u32::from_le_bytes(b[i * 4..i * 4 + 4].try_into().unwrap());
    let mut x = [0u32; 16];
    x[0] = w(c, 0);
    x[5] = w(c, 1);
    x[10] = w(c, 2);
    x[15] = w(c, 3);
    for i in 0..4 {
        x[1 + i] = w(key, i);
        x[11 + i] = w(key, 4 + i);
        x[6 + i] = w(input, i);
    }
    fn qr(x: &mut [u32; 16], a: usize, b: usize, c: usize, d: usize) {
        x[b] ^= x[a].wrapping_add(x[d]).rotate_left(7);
        x[c] ^= x[b].wrapping_add(x[a]).rotate_left(9);
        x[d] ^= x[c].wrapping_add(x[b]).rotate_left(13);
        x[a] ^= x[d].wrapping_add(x[c]).rotate_left(18);
    }
    for _ in 0..10 {
        qr(&mut x, 0, 4, 8, 12);
        qr(&mut x, 5, 9, 13, 1);
        qr(&mut x, 10, 14, 2, 6);
        qr(&mut x, 15, 3, 7, 11);
        qr(&mut x, 0, 1, 2, 3);
        qr(&mut x, 5, 6, 7, 4);
        qr(&mut x, 10, 11, 8, 9);
        qr(&mut x, 15, 12, 13, 14);
    }
    let mut out = [0u8; 32];
    for (i, idx) in [0usize, 5, 10, 15, 6, 7, 8, 9].iter().enumerate() {
        out[i * 4..i * 4 + 4].copy_from_slice(&x[*idx].to_le_bytes());
    }
    out
}

pub fn hchacha20(input: &[u8; 16], key: &[u8; 32], c: Option<&[u8; 16]>) -> [u8; 32] {
    let c = c.unwrap_or(&SIGMA_CONST);
    let w = |b: &[u8], i: usize| u32::from_le_bytes(b[i * 4..i * 4 + 4].try_into().unwrap());
    let mut x = [0u32; 16];
    for i in 0..4 {
        x[i] = w(c, i);
        x[12 + i] = w(input, i);
    }
    for i in 0..8 {
        x[4 + i] = w(key, i);
    }
    fn qr(x: &mut [u32; 16], a: usize, b: usize, c: usize, d: usize) {
        x[a] = x[a].wrapping_add(x[b]);
        x[d] = (x[d] ^ x[a]).rotate_left(16);
        x[c] = x[c].wrapping_add(x[d]);
        x[b] = (x[b] ^ x[c]).rotate_left(12);
        x[a] = x[a].wrapping_add(x[b]);
        x[d] = (x[d] ^ x[a]).rotate_left(8);
        x[c] = x[c].wrapping_add(x[d]);
        x[b] = (x[b] ^ x[c]).rotate_left(7);
    }
    for _ in 0..10 {
        qr(&mut x, 0, 4, 8, 12);
        qr(&mut x, 1, 5, 9, 13);
        qr(&mut x, 2, 6, 10, 14);
        qr(&mut x, 3, 7, 11, 15);
        qr(&mut x, 0, 5, 10, 15);
        qr(&mut x, 1, 6, 11, 12);
        qr(&mut x, 2, 7, 8, 13);
        qr(&mut x, 3, 4, 9, 14);
    }
    let mut out = [0u8; 32];
    for (i, idx) in [0usize, 1, 2, 3, 12, 13, 14, 15].iter().enumerate() {
        out[i * 4..i * 4 + 4].copy_from_slice(&x[*idx].to_le_bytes());
    }
    out
}

// ------------------------------------------------------------------ Curve25519 field helpers
pub fn fp() -> BigUint {
    (BigUint::one() << 255u32) - BigUint::from(19u32)
}
fn fsub(a: &BigUint, b: &BigUint, p: &BigUint) -> BigUint {
    ((a + p) - (b % p)) % p
}
fn finv(a: &BigUint, p: &BigUint) -> BigUint {
    a.modpow(&(p - BigUint::from(2u32)), p)
}
pub fn to32(x: &BigUint) -> [u8; 32] {
    let mut o = [0u8; 32];
    let b = x.to_bytes_le();
    o[..b.len()].copy_from_slice(&b);
    o
}

pub fn clamp(k: &[u8; 32]) -> [u8; 32] {
    let mut e = *k;
    e[0] &= 248;
    e[31] &= 127;
    e[31] |= 64;
    e
}

/// RFC 7748 §5 X25519(k, u): Montgomery ladder on big integers. Clamps k, masks bit 255 of u,
/// accepts non-canonical u (reduced mod p).
pub fn x25519(k: &[u8; 32], u: &[u8; 32]) -> [u8; 32] {
    let kk = BigUint::from_bytes_le(&clamp(k));
    mont_ladder(&kk, u, 255)
}

/// The RFC 7748 ladder for an arbitrary (unclamped) scalar of at most `bits` bits.
pub fn mont_ladder(kk: &BigUint, u: &[u8; 32], bits: u64) -> [u8; 32] {
    let p = fp();
    let mut ub = *u;
    ub[31] &= 127;
    let x1 = BigUint::from_bytes_le(&ub) % &p;
    let a24 = BigUint::from(121665u32);
    let (mut x2, mut z2, mut x3, mut z3) = (BigUint::one(), BigUint::zero(), x1.clone(), BigUint::one());
    let mut swap = false;
    for t in (0..bits).rev() {
        let kt = kk.bit(t);
        if swap ^ kt {
            std::mem::swap(&mut x2, &mut x3);
            std::mem::swap(&mut z2, &mut z3);
        }
        swap = kt;
        let a = (&x2 + &z2) % &p;
        let aa = (&a * &a) % &p;
        let b = fsub(&x2, &z2, &p);
        let bb = (&b * &b) % &p;
        let e = fsub(&aa, &bb, &p);
        let c = (&x3 + &z3) % &p;
        let d = fsub(&x3, &z3, &p);
        let da = (&d * &a) % &p;
        let cb = (&c * &b) % &p;
        let s = (&da + &cb) % &p;
        x3 = (&s * &s) % &p;
        let dd = fsub(&da, &cb, &p);
        z3 = (&x1 * ((&dd * &dd) % &p)) % &p;
        x2 = (&aa * &bb) % &p;
        z2 = (&e * ((&aa + &a24 * &e) % &p)) % &p;
    }
    if swap {
        std::mem::swap(&mut x2, &mut x3);
        std::mem::swap(&mut z2, &mut z3);
    }
    to32(&((x2 * finv(&z2, &p)) % &p))
}

/// Is the point with this u-coordinate in the prime-order subgroup of the curve (not the twist,
/// no torsion component)? Used only to classify generated cases.
pub fn mont_in_prime_subgroup(u: &[u8; 32]) -> bool {
    let p = fp();
    let mut ub = *u;
    ub[31] &= 127;
    let x = BigUint::from_bytes_le(&ub) % &p;
    if x.is_zero() || !mont_on_curve(u) {
        return false;
    }
    mont_ladder(&ed_l(), u, 253) == [0u8; 32]
}

/// Classify a Montgomery u-coordinate: is it on the curve (vs the twist)?
pub fn mont_on_curve(u: &[u8; 32]) -> bool {
    let p = fp();
    let mut ub = *u;
    ub[31] &= 127;
    let x = BigUint::from_bytes_le(&ub) % &p;
    // v^2 = x^3 + 486662 x^2 + x
    let rhs = (&x * &x * &x + BigUint::from(486662u32) * &x * &x + &x) % &p;
    if rhs.is_zero() {
        return true;
    }
    let e = (&p - BigUint::one()) >> 1;
    rhs.modpow(&e, &p).is_one()
}

// ------------------------------------------------------------------ Ed25519 (RFC 8032 §5.1) on big integers
#[derive(Clone, Debug, PartialEq)]
pub struct EdPoint {
    pub x: BigUint,
    pub y: BigUint,
} // affine

pub fn ed_l() -> BigUint {
    (BigUint::one() << 252u32) + BigUint::parse_bytes(b"27742317777372353535851937790883648493", 10).unwrap()
}
fn ed_d() -> BigUint {
    let p = fp();
    // d = -121665/121666
    let n = &p - BigUint::from(121665u32);
    (n * finv(&BigUint::from(121666u32), &p)) % &p
}
pub fn ed_identity() -> EdPoint {
    EdPoint { x: BigUint::zero(), y: BigUint::one() }
}
pub fn ed_add(a: &EdPoint, b: &EdPoint) -> EdPoint {
    let p = fp();
    let d = ed_d();
    let x1y2 = (&a.x * &b.y) % &p;
    let y1x2 = (&a.y * &b.x) % &p;
    let y1y2 = (&a.y * &b.y) % &p;
    let x1x2 = (&a.x * &b.x) % &p;
    let dxy = (&d * &x1x2 % &p) * &y1y2 % &p;
    let x3 = ((&x1y2 + &y1x2) % &p) * finv(&((BigUint::one() + &dxy) % &p), &p) % &p;
    let y3 = ((&y1y2 + &x1x2) % &p) * finv(&fsub(&BigUint::one(), &dxy, &p), &p) % &p;
    EdPoint { x: x3, y: y3 }
}
// projective (extended) arithmetic for speed
#[derive(Clone)]
struct Ext {
    x: BigUint,
    y: BigUint,
    z: BigUint,
    t: BigUint,
}
fn ext_from(a: &EdPoint) -> Ext {
    let p = fp();
    Ext { x: a.x.clone(), y: a.y.clone(), z: BigUint::one(), t: (&a.x * &a.y) % &p }
}
fn ext_to(a: &Ext) -> EdPoint {
    let p = fp();
    let zi = finv(&a.z, &p);
    EdPoint { x: (&a.x * &zi) % &p, y: (&a.y * &zi) % &p }
}
fn ext_add(a: &Ext, b: &Ext, d2: &BigUint) -> Ext {
    let p = fp();
    let aa = (fsub(&a.y, &a.x, &p) * fsub(&b.y, &b.x, &p)) % &p;
    let bb = ((&a.y + &a.x) * (&b.y + &b.x)) % &p;
    let cc = (&a.t * d2 % &p) * &b.t % &p;
    let dd = (&a.z * BigUint::from(2u32) % &p) * &b.z % &p;
    let e = fsub(&bb, &aa, &p);
    let f = fsub(&dd, &cc, &p);
    let g = (&dd + &cc) % &p;
    let h = (&bb + &aa) % &p;
    Ext { x: (&e * &f) % &p, y: (&g * &h) % &p, t: (&e * &h) % &p, z: (&f * &g) % &p }
}
pub fn ed_mul(k: &BigUint, a: &EdPoint) -> EdPoint {
    let p = fp();
    let d2 = (ed_d() * BigUint::from(2u32)) % &p;
    let mut r = ext_from(&ed_identity());
    let base = ext_from(a);
    let bits = k.bits();
    for i in (0..bits).rev() {
        r = ext_add(&r, &r, &d2);
        if k.bit(i) {
            r = ext_add(&r, &base, &d2);
        }
    }
    ext_to(&r)
}
pub fn ed_base() -> EdPoint {
    let p = fp();
    let y = (BigUint::from(4u32) * finv(&BigUint::from(5u32), &p)) % &p;
    let mut enc = to32(&y);
    enc[31] &= 127; // x is "positive" (even)
    ed_decode(&enc, false).unwrap()
}
/// RFC 8032 §5.1.3 decoding. `strict_canonical`: reject y >= p.
pub fn ed_decode(enc: &[u8; 32], strict_canonical: bool) -> Option<EdPoint> {
    let p = fp();
    let d = ed_d();
    let sign = enc[31] >> 7 == 1;
    let mut yb = *enc;
    yb[31] &= 127;
    let y_raw = BigUint::from_bytes_le(&yb);
    if strict_canonical && y_raw >= p {
        return None;
    }
    let y = y_raw % &p;
    let y2 = (&y * &y) % &p;
    let u = fsub(&y2, &BigUint::one(), &p);
    let v = (&d * &y2 + BigUint::one()) % &p;
    // x = sqrt(u/v)
    let uv = (&u * finv(&v, &p)) % &p;
    let e = (&p + BigUint::from(3u32)) >> 3;
    let mut x = uv.modpow(&e, &p);
    if (&x * &x) % &p != uv {
        let sqrtm1 = BigUint::from(2u32).modpow(&((&p - BigUint::one()) >> 2), &p);
        x = (&x * sqrtm1) % &p;
        if (&x * &x) % &p != uv {
            return None;
        }
    }
    if x.is_zero() && sign {
        // RFC 8032: decoding fails; libsodium's ge25519_frombytes accepts it as x = 0
        if strict_canonical {
            return None;
        }
    }
    if x.bit(0) != sign {
        x = (&p - &x) % &p;
    }
    Some(EdPoint { x, y })
}
pub fn ed_encode(a: &EdPoint) -> [u8; 32] {
    let mut o = to32(&a.y);
    if a.x.bit(0) {
        o[31] |= 0x80;
    }
    o
}
/// RFC 8032 pure Ed25519 signing (dom2 prefix for ph given explicitly).
pub fn ed_sign(seed: &[u8; 32], prefix: &[u8], msg: &[u8]) -> ([u8; 32], [u8; 64]) {
    let l = ed_l();
    let h = sha512(seed);
    let mut s = [0u8; 32];
    s.copy_from_slice(&h[..32]);
    s[0] &= 248;
    s[31] &= 63;
    s[31] |= 64;
    let sk = BigUint::from_bytes_le(&s);
    let b = ed_base();
    let a_enc = ed_encode(&ed_mul(&sk, &b));
    let mut inp = prefix.to_vec();
    inp.extend_from_slice(&h[32..]);
    inp.extend_from_slice(msg);
    let r = BigUint::from_bytes_le(&sha512(&inp)) % &l;
    let r_enc = ed_encode(&ed_mul(&r, &b));
    let mut inp = prefix.to_vec();
    inp.extend_from_slice(&r_enc);
    inp.extend_from_slice(&a_enc);
    inp.extend_from_slice(msg);
    let k = BigUint::from_bytes_le(&sha512(&inp)) % &l;
    let ss = (r + k * sk) % &l;
    let mut sig = [0u8; 64];
    sig[..32].copy_from_slice(&r_enc);
    sig[32..].copy_from_slice(&to32(&ss));
    (a_enc, sig)
}
pub const DOM2_PH: &[u8] = b"SigEd25519 no Ed25519 collisions\x01\x00";

/// Order of a point (1,2,4,8 for small order; 0 otherwise meaning "large")
pub fn ed_small_order(a: &EdPoint) -> bool {
    ed_mul(&BigUint::from(8u32), a) == ed_identity()
}

/// Verification as libsodium 1.0.18 performs it (cofactorless equation on the *encoding* of R):
/// S < L; R not small order; A canonical, not small order; encode([S]B - [k]A) == R bytes.
pub fn ed_verify_libsodium(pk: &[u8; 32], prefix: &[u8], msg: &[u8], sig: &[u8; 64]) -> bool {
    let l = ed_l();
    let s = BigUint::from_bytes_le(&sig[32..]);
    if s >= l {
        return false;
    }
    let r_enc: [u8; 32] = sig[..32].try_into().unwrap();
    // small-order R check on the encoding (libsodium blacklist == decodes to a small-order point or is one
    // of the listed non-canonical encodings); model: decode leniently and test order
    if let Some(rp) = ed_decode(&r_enc, false) {
        if ed_small_order(&rp) {
            return false;
        }
    }
    // public key must be canonical and not small order
    let p = fp();
    let mut yb = *pk;
    yb[31] &= 127;
    if BigUint::from_bytes_le(&yb) >= p {
        return false;
    }
    let Some(a) = ed_decode(pk, false) else { return false };
    if ed_small_order(&a) {
        return false;
    }
    let mut inp = prefix.to_vec();
    inp.extend_from_slice(&r_enc);
    inp.extend_from_slice(pk);
    inp.extend_from_slice(msg);
    let k = BigUint::from_bytes_le(&sha512(&inp)) % &l;
    let sb = ed_mul(&s, &ed_base());
    let ka = ed_mul(&k, &a);
    let neg_ka = EdPoint { x: (&p - &ka.x) % &p, y: ka.y.clone() };
    let chk = ed_add(&sb, &neg_ka);
    ed_encode(&chk) == r_enc
}

/// Edwards y -> Montgomery u = (1+y)/(1-y)
pub fn ed_to_mont(a: &EdPoint) -> [u8; 32] {
    let p = fp();
    let num = (BigUint::one() + &a.y) % &p;
    let den = fsub(&BigUint::one(), &a.y, &p);
    to32(&((num * finv(&den, &p)) % &p))
}

// ------------------------------------------------------------------ self test
fn unhex(s: &str) -> Vec<u8> {
    hex::decode(s.replace([' ', '\n'], "")).unwrap()
}

pub fn self_test() -> Result<(), String> {
    // BLAKE2b-512("abc") RFC 7693 appendix A
    let e = unhex("ba80a53f981c4d0d6a2797b69f12f6e94c212f14685ac4b74b12bb6fdbffa2d17d87c5392aab792dc252d5de4533cc9518d38aa8dbf1925ab92386edd4009923");
    if blake2b_simple(64, &[], b"abc") != e {
        return Err("blake2b KAT".into());
    }
    // SHA-512("abc")
    let e = unhex("ddaf35a193617abacc417349ae20413112e6fa4e89a97ea20a9eeee64b55d39a2192992a274fc1a836ba3c23a3feebbd454d4423643ce80e2a9ac94fa54ca49f");
    if sha512(b"abc").to_vec() != e {
        return Err("sha512 KAT".into());
    }
    // SHA-512 two-block message (FIPS 180-4 example)
    let e = unhex("8e959b75dae313da8cf4f72814fc143f8f7779c6eb9f7fa17299aeadb6889018501d289e4900f7e4331b99dec4b5433ac7d329eeb6dd26545e96e55b874be909");
    if sha512(b"abcdefghbcdefghicdefghijdefghijkefghijklfghijklmghijklmnhijklmnoijklmnopjklmnopqklmnopqrlmnopqrsmnopqrstnopqrstu").to_vec() != e {
        return Err("sha512 KAT2".into());
    }
    // HMAC-SHA-512 RFC 4231 test case 2 (first 32 bytes)
    let e = unhex("164b7a7bfcf819e2e395fbe73b56e0a387bd64222e831fd610270cd7ea250554");
    if hmac_sha512_256(b"Jefe", b"what do ya want for nothing?").to_vec() != e {
        return Err("hmac KAT".into());
    }
    // SipHash-2-4 reference vector: key 00..0f, msg 00..0e -> a129ca6149be45e5
    let key: [u8; 16] = core::array::from_fn(|i| i as u8);
    let msg: Vec<u8> = (0u8..15).collect();
    if siphash24(&key, &msg) != 0xa129ca6149be45e5u64.to_le_bytes() {
        return Err("siphash KAT".into());
    }
    // Poly1305 RFC 8439 §2.5.2
    let k: [u8; 32] = unhex("85d6be7857556d337f4452fe42d506a80103808afb0db2fd4abff6af4149f51b").try_into().unwrap();
    if poly1305(&k, b"Cryptographic Forum Research Group").to_vec() != unhex("a8061dc1305136c6c22b8baf0c0127a9") {
        return Err("poly1305 KAT".into());
    }
    // HChaCha20 draft-irtf-cfrg-xchacha §2.2.1
    let k: [u8; 32] = unhex("000102030405060708090a0b0c0d0e0f101112131415161718191a1b1c1d1e1f").try_into().unwrap();
    let n: [u8; 16] = unhex("000000090000004a0000000031415927").try_into().unwrap();
    if hchacha20(&n, &k, None).to_vec() != unhex("82413b4227b27bfed30e42508a877d73a0f9e4d58a74a853c12ec41326d3ecdc") {
        return Err("hchacha20 KAT".into());
    }
    // HSalsa20: NaCl paper (secondkey from shared secret, zero input)
    let shared: [u8; 32] = unhex("4a5d9d5ba4ce2de1728e3bf480350f25e07e21c947d19e3376f09b3c1e161742").try_into().unwrap();
    if hsalsa20(&[0u8; 16], &shared, None).to_vec() != unhex("1b27556473e985d462cd51197a9a46c76009549eac6474f206c4ee0844f68389") {
        return Err("hsalsa20 KAT".into());
    }
    // X25519 RFC 7748 §5.2 vector 1
    let k: [u8; 32] = unhex("a546e36bf0527c9d3b16154b82465edd62144c0ac1fc5a18506a2244ba449ac4").try_into().unwrap();
    let u: [u8; 32] = unhex("e6db6867583030db3594c1a424b15f7c726624ec26b3353b10a903a6d0ab1c4c").try_into().unwrap();
    if x25519(&k, &u).to_vec() != unhex("c3da55379de9c6908e94ea4df28d084f32eccf03491c71f754b4075577a28552") {
        return Err("x25519 KAT1".into());
    }
    let k: [u8; 32] = unhex("4b66e9d4d1b4673c5ad22691957d6af5c11b6421e0ea01d42ca4169e7918ba0d").try_into().unwrap();
    let u: [u8; 32] = unhex("e5210f12786811d3f4b7959d0538ae2c31dbe7106fc03c3efc4cd549c715a493").try_into().unwrap();
    if x25519(&k, &u).to_vec() != unhex("95cbde9476e8907d7aade45cb4b873f88b595a68799fa152e6f8f7647aac7957") {
        return Err("x25519 KAT2".into());
    }
    // Ed25519 RFC 8032 §7.1 TEST 2
    let seed: [u8; 32] = unhex("4ccd089b28ff96da9db6c346ec114e0f5b8a319f35aba624da8cf6ed4fb8a6fb").try_into().unwrap();
    let (pk, sig) = ed_sign(&seed, &[], &[0x72]);
    if pk.to_vec() != unhex("3d4017c3e843895a92b70aa74d1b7ebc9c982ccf2ec4968cc0cd55f12af4660c")
        || sig.to_vec()
            != unhex("92a009a9f0d4cab8720e820b5f642540a2b27b5416503f8fb3762223ebdb69da085ac1e43e15996e458f3613d0f11d8c387b2eaeb4302aeeb00d291612bb0c00")
    {
        return Err("ed25519 KAT".into());
    }
    if !ed_verify_libsodium(&pk, &[], &[0x72], &sig) {
        return Err("ed25519 verify KAT".into());
    }
    // Ed25519ph RFC 8032 §7.3
    let seed: [u8; 32] = unhex("833fe62409237b9d62ec77587520911e9a759cec1d19755b7da901b96dca3d42").try_into().unwrap();
    let ph = sha512(b"abc");
    let (pk, sig) = ed_sign(&seed, DOM2_PH, &ph);
    if pk.to_vec() != unhex("ec172b93ad5e563bf4932c70e1245034c35467ef2efd4d64ebf819683467e2bf")
        || sig.to_vec()
            != unhex("98a70222f0b8121aa9d30f813d683f809e462b469c7ff87639499bb94e6dae4131f85042463c2a355a2003d062adf5aaa10b8c61e636062aaad11c2a26083406")
    {
        return Err("ed25519ph KAT".into());
    }
    Ok(())
}
