//! Shared authenticated-encryption plumbing for C01 / C02 / C17: authentic material construction
//! (by libsodium), the single-fault family, and every dryoc opening entry point behind one enum.
use crate::core::*;
use crate::sodium;
use dryoc::classic::crypto_box::*;
use dryoc::classic::crypto_secretbox::*;
use dryoc::classic::crypto_secretstream_xchacha20poly1305 as css;
use dryoc::dryocbox::DryocBox;
use dryoc::dryocsecretbox::DryocSecretBox;
use dryoc::dryocstream::DryocStream;
use dryoc::keypair::KeyPair;
use dryoc::types::StackByteArray;
use serde::{Deserialize, Serialize};

#[derive(Clone, Copy, Debug, PartialEq, Eq, Serialize, Deserialize)]
pub enum Kind {
    SecretBox,
    Box,
    Precalc,
    Sealed,
    Stream,
}

#[derive(Clone, Debug, Serialize, Deserialize)]
pub struct Material {
    pub kind: Kind,
    /// symmetric key (SecretBox), precomputed key (Precalc), stream key (Stream)
    pub key: Hex,
    pub nonce: Hex,
    /// Box: sender public key; Sealed: recipient public key
    pub pk: Hex,
    /// Box/Sealed: recipient secret key
    pub sk: Hex,
    pub epk: Hex,
    pub tag: Hex,
    /// ciphertext body (Stream: the whole stream ciphertext incl. tag byte and MAC)
    pub ct: Hex,
    pub header: Hex,
    pub ad: Option<Hex>,
    /// Stream: authentic earlier ciphertexts that are pulled first
    pub prior: Vec<Hex>,
    /// when Some, the combined wire is exactly these bytes (truncation into the fixed overhead)
    pub short_wire: Option<Hex>,
    /// the plaintext (for the control)
    pub msg: Hex,
    /// Stream: the tag byte that was pushed
    pub stream_tag: u8,
}

impl Material {
    pub fn wire(&self) -> Vec<u8> {
        if let Some(w) = &self.short_wire {
            return w.0.clone();
        }
        let mut w = vec![];
        match self.kind {
            Kind::Sealed => {
                w.extend_from_slice(&self.epk);
                w.extend_from_slice(&self.tag);
                w.extend_from_slice(&self.ct);
            }
            Kind::Stream => w.extend_from_slice(&self.ct),
            _ => {
                w.extend_from_slice(&self.tag);
                w.extend_from_slice(&self.ct);
            }
        }
        w
    }
    pub fn overhead(&self) -> usize {
        match self.kind {
            Kind::Sealed => 48,
            Kind::Stream => 17,
            _ => 16,
        }
    }
}

fn a<const N: usize>(h: &[u8]) -> [u8; N] {
    let mut o = [0u8; N];
    let n = h.len().min(N);
    o[..n].copy_from_slice(&h[..n]);
    o
}

/// Build authentic material with libsodium (the honest sender is the reference implementation).
pub fn authentic(kind: Kind, f: &mut Fill, msg: &[u8]) -> Material {
    let nonce: [u8; 24] = f.arr();
    let mut m = Material {
        kind,
        key: Hex(vec![]),
        nonce: Hex(nonce.to_vec()),
        pk: Hex(vec![]),
        sk: Hex(vec![]),
        epk: Hex(vec![]),
        tag: Hex(vec![]),
        ct: Hex(vec![]),
        header: Hex(vec![]),
        ad: None,
        prior: vec![],
        short_wire: None,
        msg: Hex(msg.to_vec()),
        stream_tag: 0,
    };
    match kind {
        Kind::SecretBox => {
            let key: [u8; 32] = f.arr();
            let (ct, tag) = sodium::secretbox_detached(msg, &nonce, &key);
            m.key = Hex(key.to_vec());
            m.ct = Hex(ct);
            m.tag = Hex(tag.to_vec());
        }
        Kind::Box | Kind::Precalc => {
            let (spk, ssk) = sodium::box_seed_keypair(&f.arr());
            let (rpk, rsk) = sodium::box_seed_keypair(&f.arr());
            let (ct, tag) = sodium::box_detached(msg, &nonce, &rpk, &ssk).expect("honest keys");
            m.pk = Hex(spk.to_vec());
            m.sk = Hex(rsk.to_vec());
            m.ct = Hex(ct);
            m.tag = Hex(tag.to_vec());
            if kind == Kind::Precalc {
                m.key = Hex(sodium::box_beforenm(&spk, &rsk).expect("honest keys").to_vec());
            }
        }
        Kind::Sealed => {
            let (rpk, rsk) = sodium::box_seed_keypair(&f.arr());
            let sealed = sodium::box_seal(msg, &rpk);
            m.pk = Hex(rpk.to_vec());
            m.sk = Hex(rsk.to_vec());
            m.epk = Hex(sealed[..32].to_vec());
            m.tag = Hex(sealed[32..48].to_vec());
            m.ct = Hex(sealed[48..].to_vec());
            m.nonce = Hex(vec![]);
        }
        Kind::Stream => {
            let key: [u8; 32] = f.arr();
            let header: [u8; 24] = f.arr();
            let mut st = sodium::stream_init_pull(&header, &key);
            let nprior = f.below(3) as usize;
            for i in 0..nprior {
                let pm = f.bytes((i * 7 + msg.len()) % 20);
                let t = if f.below(4) == 0 { 2 } else { 0 };
                m.prior.push(Hex(sodium::stream_push(&mut st, &pm, None, t)));
            }
            let adlen = [0usize, 0, 1, 15, 16, 17, 40][f.below(7) as usize];
            let ad = if adlen == 0 && f.below(2) == 0 { None } else { Some(f.bytes(adlen)) };
            let tag = [0u8, 1, 2, 3][f.below(4) as usize];
            m.ct = Hex(sodium::stream_push(&mut st, msg, ad.as_deref(), tag));
            m.ad = ad.map(Hex);
            m.key = Hex(key.to_vec());
            m.header = Hex(header.to_vec());
            m.nonce = Hex(vec![]);
            m.stream_tag = tag;
        }
    }
    m
}

#[derive(Clone, Debug, PartialEq, Eq, Serialize, Deserialize)]
pub enum Fault {
    None,
    FlipTag(usize),
    FlipCt(usize),
    FlipNonce(usize),
    FlipKey(usize),
    FlipEpk(usize),
    FlipHeader(usize),
    FlipAd(usize),
    /// AD present vs absent / AD with one byte appended
    AdExtend,
    AdDrop,
    Truncate(usize),
    Extend(usize, bool),
}

impl Fault {
    pub fn family(&self) -> &'static str {
        match self {
            Fault::None => "none",
            Fault::FlipTag(_) => "flip-tag",
            Fault::FlipCt(_) => "flip-ciphertext",
            Fault::FlipNonce(_) => "flip-nonce",
            Fault::FlipKey(_) => "flip-key",
            Fault::FlipEpk(_) => "flip-ephemeral-key",
            Fault::FlipHeader(_) => "flip-header",
            Fault::FlipAd(_) => "flip-ad",
            Fault::AdExtend => "ad-extend",
            Fault::AdDrop => "ad-drop",
            Fault::Truncate(_) => "truncate",
            Fault::Extend(_, _) => "extend",
        }
    }
}

fn flip(v: &mut [u8], bit: usize) {
    v[bit / 8] ^= 1 << (bit % 8);
}

/// All single faults applicable to `m`.
pub fn faults(m: &Material) -> Vec<Fault> {
    let mut v = vec![];
    let wire_len = m.wire().len();
    match m.kind {
        Kind::Stream => {
            for b in 0..m.ct.len() * 8 {
                v.push(Fault::FlipCt(b));
            }
            for b in 0..192 {
                v.push(Fault::FlipHeader(b));
            }
            for b in 0..256 {
                v.push(Fault::FlipKey(b));
            }
            if let Some(ad) = &m.ad {
                for b in 0..ad.len() * 8 {
                    v.push(Fault::FlipAd(b));
                }
                if !ad.is_empty() {
                    v.push(Fault::AdDrop);
                }
            }
            v.push(Fault::AdExtend);
        }
        _ => {
            for b in 0..128 {
                v.push(Fault::FlipTag(b));
            }
            for b in 0..m.ct.len() * 8 {
                v.push(Fault::FlipCt(b));
            }
            if m.kind != Kind::Sealed {
                for b in 0..192 {
                    v.push(Fault::FlipNonce(b));
                }
            }
            if matches!(m.kind, Kind::SecretBox | Kind::Precalc) {
                for b in 0..256 {
                    v.push(Fault::FlipKey(b));
                }
            }
            if m.kind == Kind::Sealed {
                for b in 0..256 {
                    v.push(Fault::FlipEpk(b));
                }
            }
        }
    }
    for k in 1..=wire_len {
        v.push(Fault::Truncate(k));
    }
    for k in [1usize, 2, 15, 16, 17, 64] {
        v.push(Fault::Extend(k, false));
        v.push(Fault::Extend(k, true));
    }
    v
}

pub fn apply(m: &Material, fault: &Fault) -> Material {
    let mut o = m.clone();
    match fault {
        Fault::None => {}
        Fault::FlipTag(b) => flip(&mut o.tag.0, *b),
        Fault::FlipCt(b) => flip(&mut o.ct.0, *b),
        Fault::FlipNonce(b) => flip(&mut o.nonce.0, *b),
        Fault::FlipKey(b) => flip(&mut o.key.0, *b),
        Fault::FlipEpk(b) => flip(&mut o.epk.0, *b),
        Fault::FlipHeader(b) => flip(&mut o.header.0, *b),
        Fault::FlipAd(b) => flip(&mut o.ad.as_mut().unwrap().0, *b),
        Fault::AdDrop => o.ad = None,
        Fault::AdExtend => {
            let mut ad = o.ad.take().map(|h| h.0).unwrap_or_default();
            ad.push(0);
            o.ad = Some(Hex(ad));
        }
        Fault::Truncate(k) => {
            if *k <= o.ct.len() && m.kind != Kind::Stream {
                let n = o.ct.len() - k;
                o.ct.0.truncate(n);
            } else if m.kind == Kind::Stream {
                let n = o.ct.len() - k;
                o.ct.0.truncate(n);
            } else {
                let mut w = m.wire();
                let n = w.len() - k;
                w.truncate(n);
                o.short_wire = Some(Hex(w));
            }
        }
        Fault::Extend(k, random) => {
            let mut f = Fill::new(fnv64(&[&m.ct, &m.tag]), "extend");
            let ext = if *random { f.bytes(*k) } else { vec![0u8; *k] };
            o.ct.0.extend_from_slice(&ext);
        }
    }
    o
}

#[derive(Clone, Copy, Debug, PartialEq, Eq, Serialize, Deserialize)]
pub enum Opener {
    // secretbox
    SbOpenEasy,
    SbOpenDetached,
    SbOpenEasyInplace,
    SbObjFromBytes,
    SbObjFromParts,
    SbObjArrayMac,
    // box
    BoxOpenEasy,
    BoxOpenDetached,
    BoxOpenDetachedInplace,
    BoxOpenEasyInplace,
    BoxObjFromBytes,
    BoxObjFromParts,
    // precalc
    PcOpenDetachedAfternm,
    PcOpenDetachedAfternmInplace,
    PcObjPrecalcDecrypt,
    PcSbOpenEasy,
    // sealed
    SealOpen,
    SealObjUnseal,
    // stream
    StreamPull,
    StreamObjPull,
}

pub const ALL_OPENERS: &[Opener] = &[
    Opener::SbOpenEasy,
    Opener::SbOpenDetached,
    Opener::SbOpenEasyInplace,
    Opener::SbObjFromBytes,
    Opener::SbObjFromParts,
    Opener::SbObjArrayMac,
    Opener::BoxOpenEasy,
    Opener::BoxOpenDetached,
    Opener::BoxOpenDetachedInplace,
    Opener::BoxOpenEasyInplace,
    Opener::BoxObjFromBytes,
    Opener::BoxObjFromParts,
    Opener::PcOpenDetachedAfternm,
    Opener::PcOpenDetachedAfternmInplace,
    Opener::PcObjPrecalcDecrypt,
    Opener::PcSbOpenEasy,
    Opener::SealOpen,
    Opener::SealObjUnseal,
    Opener::StreamPull,
    Opener::StreamObjPull,
];

impl Opener {
    pub fn kind(self) -> Kind {
        use Opener::*;
        match self {
            SbOpenEasy | SbOpenDetached | SbOpenEasyInplace | SbObjFromBytes | SbObjFromParts | SbObjArrayMac => Kind::SecretBox,
            BoxOpenEasy | BoxOpenDetached | BoxOpenDetachedInplace | BoxOpenEasyInplace | BoxObjFromBytes | BoxObjFromParts => Kind::Box,
            PcOpenDetachedAfternm | PcOpenDetachedAfternmInplace | PcObjPrecalcDecrypt | PcSbOpenEasy => Kind::Precalc,
            SealOpen | SealObjUnseal => Kind::Sealed,
            StreamPull | StreamObjPull => Kind::Stream,
        }
    }
    /// classic functions that write into a caller-provided buffer (C17's subject)
    pub fn writes_caller_buffer(self) -> bool {
        use Opener::*;
        matches!(
            self,
            SbOpenEasy | SbOpenDetached | SbOpenEasyInplace | BoxOpenEasy | BoxOpenDetached | BoxOpenDetachedInplace
                | BoxOpenEasyInplace | PcOpenDetachedAfternm | PcOpenDetachedAfternmInplace | PcSbOpenEasy | SealOpen | StreamPull
        )
    }
    pub fn name(self) -> String {
        format!("{self:?}")
    }
}

pub struct Opened {
    /// Ok(plaintext) or Err(rejected)
    pub result: Result<Vec<u8>, String>,
    /// caller buffer before / after (classic functions only)
    pub buf_before: Option<Vec<u8>>,
    pub buf_after: Option<Vec<u8>>,
    pub inplace: bool,
    /// stream tag output variable (sentinel 0xA5 before the call)
    pub tag_after: Option<u8>,
}

pub const SENTINEL: u8 = 0xA5;
pub const TAG_SENTINEL: u8 = 0xA5;

fn sentinel_buf(n: usize) -> Vec<u8> {
    (0..n).map(|i| SENTINEL ^ (i as u8).wrapping_mul(31)).collect()
}

/// Run one opening entry point on (possibly faulted) material. None = this opener cannot express
/// the material (e.g. a detached form given a wire cut inside the tag). A panic is reported as
/// Err("panic: ...") in `result` by the callers' catch (see `open_caught`).
pub fn open(op: Opener, m: &Material) -> Option<Opened> {
    use Opener::*;
    if op.kind() != m.kind {
        return None;
    }
    let wire = m.wire();
    let short = m.short_wire.is_some();
    let nonce: [u8; 24] = a(&m.nonce);
    let key: [u8; 32] = a(&m.key);
    let pk: [u8; 32] = a(&m.pk);
    let sk: [u8; 32] = a(&m.sk);
    let mk = |result: Result<Vec<u8>, String>| Opened { result, buf_before: None, buf_after: None, inplace: false, tag_after: None };
    let copying = |result: Result<(), dryoc::Error>, before: Vec<u8>, after: Vec<u8>| Opened {
        result: result.map(|_| after.clone()).map_err(|e| format!("{e:?}")),
        buf_before: Some(before),
        buf_after: Some(after),
        inplace: false,
        tag_after: None,
    };
    Some(match op {
        SbOpenEasy | PcSbOpenEasy => {
            let before = sentinel_buf(wire.len().saturating_sub(16));
            let mut buf = before.clone();
            let r = crypto_secretbox_open_easy(&mut buf, &wire, &nonce, &key);
            copying(r, before, buf)
        }
        SbOpenDetached | PcOpenDetachedAfternm => {
            if short {
                return None;
            }
            let tag: [u8; 16] = a(&m.tag);
            let before = sentinel_buf(m.ct.len());
            let mut buf = before.clone();
            let r = if op == SbOpenDetached {
                crypto_secretbox_open_detached(&mut buf, &tag, &m.ct, &nonce, &key)
            } else {
                crypto_box_open_detached_afternm(&mut buf, &tag, &m.ct, &nonce, &key)
            };
            copying(r, before, buf)
        }
        SbOpenEasyInplace => {
            let before = wire.clone();
            let mut buf = wire.clone();
            let r = crypto_secretbox_open_easy_inplace(&mut buf, &nonce, &key);
            let res = r.map(|_| buf[..buf.len().saturating_sub(16)].to_vec()).map_err(|e| format!("{e:?}"));
            Opened { result: res, buf_before: Some(before), buf_after: Some(buf), inplace: true, tag_after: None }
        }
        PcOpenDetachedAfternmInplace => {
            if short {
                return None;
            }
            let tag: [u8; 16] = a(&m.tag);
            let before = m.ct.0.clone();
            let mut buf = before.clone();
            let r = crypto_box_open_detached_afternm_inplace(&mut buf, &tag, &nonce, &key);
            let res = r.map(|_| buf.clone()).map_err(|e| format!("{e:?}"));
            Opened { result: res, buf_before: Some(before), buf_after: Some(buf), inplace: true, tag_after: None }
        }
        SbObjFromBytes => {
            let r = DryocSecretBox::<StackByteArray<16>, Vec<u8>>::from_bytes(&wire)
                .and_then(|b| b.decrypt_to_vec(&StackByteArray::<24>::from(nonce), &StackByteArray::<32>::from(key)));
            mk(r.map_err(|e| format!("{e:?}")))
        }
        SbObjFromParts => {
            if short {
                return None;
            }
            let b = DryocSecretBox::<Vec<u8>, Vec<u8>>::from_parts(m.tag.0.clone(), m.ct.0.clone());
            let r: Result<Vec<u8>, _> = b.decrypt(&nonce.to_vec(), &key.to_vec());
            mk(r.map_err(|e| format!("{e:?}")))
        }
        SbObjArrayMac => {
            let r = DryocSecretBox::<[u8; 16], Vec<u8>>::from_bytes(&wire).and_then(|b| {
                let ks: &[u8] = &key;
                let r: Result<Vec<u8>, _> = b.decrypt(&nonce, &ks);
                r
            });
            mk(r.map_err(|e| format!("{e:?}")))
        }
        BoxOpenEasy => {
            let before = sentinel_buf(wire.len().saturating_sub(16));
            let mut buf = before.clone();
            let r = crypto_box_open_easy(&mut buf, &wire, &nonce, &pk, &sk);
            copying(r, before, buf)
        }
        BoxOpenDetached => {
            if short {
                return None;
            }
            let tag: [u8; 16] = a(&m.tag);
            let before = sentinel_buf(m.ct.len());
            let mut buf = before.clone();
            let r = crypto_box_open_detached(&mut buf, &tag, &m.ct, &nonce, &pk, &sk);
            copying(r, before, buf)
        }
        BoxOpenDetachedInplace => {
            if short {
                return None;
            }
            let tag: [u8; 16] = a(&m.tag);
            let before = m.ct.0.clone();
            let mut buf = before.clone();
            let r = crypto_box_open_detached_inplace(&mut buf, &tag, &nonce, &pk, &sk);
            let res = r.map(|_| buf.clone()).map_err(|e| format!("{e:?}"));
            Opened { result: res, buf_before: Some(before), buf_after: Some(buf), inplace: true, tag_after: None }
        }
        BoxOpenEasyInplace => {
            let before = wire.clone();
            let mut buf = wire.clone();
            let r = crypto_box_open_easy_inplace(&mut buf, &nonce, &pk, &sk);
            let res = r.map(|_| buf[..buf.len().saturating_sub(16)].to_vec()).map_err(|e| format!("{e:?}"));
            Opened { result: res, buf_before: Some(before), buf_after: Some(buf), inplace: true, tag_after: None }
        }
        BoxObjFromBytes => {
            let r = DryocBox::<StackByteArray<32>, StackByteArray<16>, Vec<u8>>::from_bytes(&wire).and_then(|b| {
                b.decrypt_to_vec(&StackByteArray::<24>::from(nonce), &StackByteArray::<32>::from(pk), &StackByteArray::<32>::from(sk))
            });
            mk(r.map_err(|e| format!("{e:?}")))
        }
        BoxObjFromParts => {
            if short {
                return None;
            }
            let b = DryocBox::<Vec<u8>, Vec<u8>, Vec<u8>>::from_parts(m.tag.0.clone(), m.ct.0.clone(), None);
            let r: Result<Vec<u8>, _> = b.decrypt(&nonce, &pk.to_vec(), &sk);
            mk(r.map_err(|e| format!("{e:?}")))
        }
        PcObjPrecalcDecrypt => {
            let r = DryocBox::<StackByteArray<32>, StackByteArray<16>, Vec<u8>>::from_bytes(&wire)
                .and_then(|b| b.precalc_decrypt_to_vec(&StackByteArray::<24>::from(nonce), &StackByteArray::<32>::from(key)));
            mk(r.map_err(|e| format!("{e:?}")))
        }
        SealOpen => {
            let before = sentinel_buf(wire.len().saturating_sub(48));
            let mut buf = before.clone();
            let r = crypto_box_seal_open(&mut buf, &wire, &pk, &sk);
            copying(r, before, buf)
        }
        SealObjUnseal => {
            let kp = KeyPair::<StackByteArray<32>, StackByteArray<32>>::from_slices(&pk, &sk).expect("keypair");
            let r = DryocBox::<StackByteArray<32>, StackByteArray<16>, Vec<u8>>::from_sealed_bytes(&wire).and_then(|b| b.unseal_to_vec(&kp));
            mk(r.map_err(|e| format!("{e:?}")))
        }
        StreamPull => {
            let header: [u8; 24] = a(&m.header);
            let mut st = css::State::new();
            css::crypto_secretstream_xchacha20poly1305_init_pull(&mut st, &header, &key);
            for p in &m.prior {
                let mut pm = vec![0u8; p.len().saturating_sub(17)];
                let mut t = 0u8;
                if css::crypto_secretstream_xchacha20poly1305_pull(&mut st, &mut pm, &mut t, p, None).is_err() {
                    // earlier authentic messages fail only when key/header were faulted: that is a rejection
                    return Some(Opened { result: Err("prior message rejected".into()), buf_before: None, buf_after: None, inplace: false, tag_after: None });
                }
            }
            let before = sentinel_buf(wire.len().saturating_sub(17));
            let mut buf = before.clone();
            let mut tag = TAG_SENTINEL;
            let r = css::crypto_secretstream_xchacha20poly1305_pull(&mut st, &mut buf, &mut tag, &wire, m.ad.as_ref().map(|h| h.0.as_slice()));
            Opened {
                result: r.map(|n| buf[..n].to_vec()).map_err(|e| format!("{e:?}")),
                buf_before: Some(before),
                buf_after: Some(buf),
                inplace: false,
                tag_after: Some(tag),
            }
        }
        StreamObjPull => {
            let header: [u8; 24] = a(&m.header);
            let mut s = DryocStream::init_pull(&key, &header);
            for p in &m.prior {
                if s.pull_to_vec(&p.0, None).is_err() {
                    return Some(mk(Err("prior message rejected".into())));
                }
            }
            let r = s.pull_to_vec(&wire, m.ad.as_ref().map(|h| &h.0));
            mk(r.map(|(mm, _)| mm).map_err(|e| format!("{e:?}")))
        }
    })
}


/// Stream only: pull the (faulted) material, and if it was rejected, pull `authentic` on the SAME pull state.
/// Returns (result of the faulted pull, result of the follow-up authentic pull if it was attempted).
pub fn stream_pull_then_authentic(op: Opener, faulted: &Material, authentic: &Material) -> Option<(Result<Vec<u8>, String>, Option<Result<Vec<u8>, String>>)> {
    if faulted.kind != Kind::Stream || authentic.kind != Kind::Stream {
        return None;
    }
    // the follow-up only makes sense when key/header/prior are those of the authentic stream
    if faulted.key != authentic.key || faulted.header != authentic.header {
        return None;
    }
    let key: [u8; 32] = a(&authentic.key);
    let header: [u8; 24] = a(&authentic.header);
    match op {
        Opener::StreamPull => {
            let mut st = css::State::new();
            css::crypto_secretstream_xchacha20poly1305_init_pull(&mut st, &header, &key);
            for p in &authentic.prior {
                let mut pm = vec![0u8; p.len().saturating_sub(17)];
                let mut t = 0u8;
                css::crypto_secretstream_xchacha20poly1305_pull(&mut st, &mut pm, &mut t, p, None).ok()?;
            }
            let w = faulted.wire();
            let mut buf = vec![0u8; w.len().saturating_sub(17)];
            let mut tag = 0u8;
            let r1 = css::crypto_secretstream_xchacha20poly1305_pull(&mut st, &mut buf, &mut tag, &w, faulted.ad.as_ref().map(|h| h.0.as_slice())).map(|n| buf[..n].to_vec()).map_err(|e| format!("{e:?}"));
            if r1.is_ok() {
                return Some((r1, None));
            }
            let w2 = authentic.wire();
            let mut buf2 = vec![0u8; w2.len().saturating_sub(17)];
            let r2 = css::crypto_secretstream_xchacha20poly1305_pull(&mut st, &mut buf2, &mut tag, &w2, authentic.ad.as_ref().map(|h| h.0.as_slice())).map(|n| buf2[..n].to_vec()).map_err(|e| format!("{e:?}"));
            Some((r1, Some(r2)))
        }
        Opener::StreamObjPull => {
            let mut s = DryocStream::init_pull(&key, &header);
            for p in &authentic.prior {
                s.pull_to_vec(&p.0, None).ok()?;
            }
            let r1 = s.pull_to_vec(&faulted.wire(), faulted.ad.as_ref().map(|h| &h.0)).map(|(m, _)| m).map_err(|e| format!("{e:?}"));
            if r1.is_ok() {
                return Some((r1, None));
            }
            let r2 = s.pull_to_vec(&authentic.wire(), authentic.ad.as_ref().map(|h| &h.0)).map(|(m, _)| m).map_err(|e| format!("{e:?}"));
            Some((r1, Some(r2)))
        }
        _ => None,
    }
}

/// Classic copying opens called by a caller whose message buffer has a FIXED size `msg_len` (the size of the
/// plaintext it expects) although the presented ciphertext is longer. The documented sizing is ciphertext
/// length minus overhead, so an error or even a panic is acceptable here; ACCEPTING the extended input is not.
/// Returns Some(true) if the call returned Ok.
pub fn open_fixed_buffer_accepts(op: Opener, m: &Material, msg_len: usize) -> Option<bool> {
    use Opener::*;
    if op.kind() != m.kind || m.short_wire.is_some() {
        return None;
    }
    let wire = m.wire();
    let nonce: [u8; 24] = a(&m.nonce);
    let key: [u8; 32] = a(&m.key);
    let pk: [u8; 32] = a(&m.pk);
    let sk: [u8; 32] = a(&m.sk);
    let tag: [u8; 16] = a(&m.tag);
    let mut buf = vec![0u8; msg_len];
    let r = no_panic(|| match op {
        SbOpenEasy | PcSbOpenEasy => Some(crypto_secretbox_open_easy(&mut buf, &wire, &nonce, &key).is_ok()),
        SbOpenDetached => Some(crypto_secretbox_open_detached(&mut buf, &tag, &m.ct, &nonce, &key).is_ok()),
        PcOpenDetachedAfternm => Some(crypto_box_open_detached_afternm(&mut buf, &tag, &m.ct, &nonce, &key).is_ok()),
        BoxOpenEasy => Some(crypto_box_open_easy(&mut buf, &wire, &nonce, &pk, &sk).is_ok()),
        BoxOpenDetached => Some(crypto_box_open_detached(&mut buf, &tag, &m.ct, &nonce, &pk, &sk).is_ok()),
        SealOpen => Some(crypto_box_seal_open(&mut buf, &wire, &pk, &sk).is_ok()),
        _ => None,
    });
    match r {
        Ok(v) => v,
        Err(_) => Some(false), // a panic is not an acceptance
    }
}

/// As `open_fixed_buffer_accepts`, but reports (buffer before, buffer after, returned Ok?) so that C17 can inspect what
/// a failed open left in a caller buffer that is LONGER than the presented ciphertext needs. A panic yields None.
pub fn open_fixed_buffer_observe(op: Opener, m: &Material, msg_len: usize) -> Option<(Vec<u8>, Vec<u8>, bool)> {
    use Opener::*;
    if op.kind() != m.kind || m.short_wire.is_some() {
        return None;
    }
    let wire = m.wire();
    let nonce: [u8; 24] = a(&m.nonce);
    let key: [u8; 32] = a(&m.key);
    let pk: [u8; 32] = a(&m.pk);
    let sk: [u8; 32] = a(&m.sk);
    let tag: [u8; 16] = a(&m.tag);
    let before = sentinel_buf(msg_len);
    let mut buf = before.clone();
    let r = no_panic(|| match op {
        SbOpenEasy | PcSbOpenEasy => Some(crypto_secretbox_open_easy(&mut buf, &wire, &nonce, &key).is_ok()),
        SbOpenDetached => Some(crypto_secretbox_open_detached(&mut buf, &tag, &m.ct, &nonce, &key).is_ok()),
        PcOpenDetachedAfternm => Some(crypto_box_open_detached_afternm(&mut buf, &tag, &m.ct, &nonce, &key).is_ok()),
        BoxOpenEasy => Some(crypto_box_open_easy(&mut buf, &wire, &nonce, &pk, &sk).is_ok()),
        BoxOpenDetached => Some(crypto_box_open_detached(&mut buf, &tag, &m.ct, &nonce, &pk, &sk).is_ok()),
        SealOpen => Some(crypto_box_seal_open(&mut buf, &wire, &pk, &sk).is_ok()),
        _ => None,
    });
    match r {
        Ok(Some(ok)) => Some((before, buf, ok)),
        _ => None,
    }
}

/// `open` with panics converted into Err("panic: ..").
pub fn open_caught(op: Opener, m: &Material) -> Option<Result<Opened, String>> {
    match no_panic(|| open(op, m)) {
        Ok(None) => None,
        Ok(Some(o)) => Some(Ok(o)),
        Err(p) => Some(Err(format!("panic: {p} at {}", last_panic_loc()))),
    }
}

/// The reference verdict: does libsodium accept this (possibly faulted) material?
pub fn sodium_accepts(m: &Material) -> Option<Vec<u8>> {
    let wire = m.wire();
    let nonce: [u8; 24] = a(&m.nonce);
    let key: [u8; 32] = a(&m.key);
    let pk: [u8; 32] = a(&m.pk);
    let sk: [u8; 32] = a(&m.sk);
    match m.kind {
        Kind::SecretBox => sodium::secretbox_open_easy(&wire, &nonce, &key),
        Kind::Precalc => sodium::box_open_easy_afternm(&wire, &nonce, &key),
        Kind::Box => sodium::box_open_easy(&wire, &nonce, &pk, &sk),
        Kind::Sealed => sodium::box_seal_open(&wire, &pk, &sk),
        Kind::Stream => {
            let header: [u8; 24] = a(&m.header);
            let mut st = sodium::stream_init_pull(&header, &key);
            for p in &m.prior {
                sodium::stream_pull(&mut st, p, None)?;
            }
            sodium::stream_pull(&mut st, &wire, m.ad.as_ref().map(|h| h.0.as_slice())).map(|(mm, _)| mm)
        }
    }
}

/// `ciphertext XOR keystream` for the (faulted) material, i.e. what a decrypt-before-verify would
/// release. Computed with the reference by brute force: libsodium has no "decrypt without verify",
/// so encrypt zeros under the same key/nonce to obtain the keystream.
pub fn forged_plaintext(m: &Material) -> Option<Vec<u8>> {
    let n = m.ct.len();
    let ks = match m.kind {
        Kind::SecretBox | Kind::Precalc => {
            let (ks, _) = sodium::secretbox_detached(&vec![0u8; n], &a(&m.nonce), &a(&m.key));
            ks
        }
        Kind::Box => {
            let k = sodium::box_beforenm(&a(&m.pk), &a(&m.sk))?;
            let (ks, _) = sodium::secretbox_detached(&vec![0u8; n], &a(&m.nonce), &k);
            ks
        }
        Kind::Sealed => {
            if m.short_wire.is_some() {
                return None;
            }
            let k = sodium::box_beforenm(&a(&m.epk), &a(&m.sk))?;
            let mut inp = m.epk.0.clone();
            inp.extend_from_slice(&m.pk);
            let nn = sodium::generichash(24, &inp, None)?;
            let (ks, _) = sodium::secretbox_detached(&vec![0u8; n], &a(&nn), &k);
            ks
        }
        Kind::Stream => {
            // keystream of the message body: push zeros with the same state
            let header: [u8; 24] = a(&m.header);
            let mut st = sodium::stream_init_pull(&header, &a(&m.key));
            for p in &m.prior {
                sodium::stream_pull(&mut st, p, None)?;
            }
            if n < 17 {
                return None;
            }
            let z = sodium::stream_push(&mut st, &vec![0u8; n - 17], None, 0);
            let body = &m.ct[1..n - 16];
            return Some(body.iter().zip(z[1..n - 16].iter()).map(|(a, b)| a ^ b).collect());
        }
    };
    Some(m.ct.iter().zip(ks.iter()).map(|(a, b)| a ^ b).collect())
}
