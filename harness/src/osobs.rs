//! OS-level observation: /proc/self/smaps + status, forked access probes, mlock interposer,
//! allocator observers (verif_hooks). Linux only; used by C14 / C15 / C19 in the nightly build.
#![cfg(feature = "nightly")]
use std::sync::atomic::{AtomicI64, AtomicU64, Ordering};

pub fn page_size() -> usize {
    unsafe { libc::sysconf(libc::_SC_PAGESIZE) as usize }
}

#[derive(Debug, Clone)]
pub struct Vma {
    pub start: usize,
    pub end: usize,
    pub perms: String,
    pub locked_flag: bool,
    pub dontdump: bool,
}

pub fn read_smaps() -> Vec<Vma> {
    let text = std::fs::read_to_string("/proc/self/smaps").unwrap_or_default();
    let mut out: Vec<Vma> = vec![];
    for line in text.lines() {
        let first = line.split_whitespace().next().unwrap_or("");
        if let Some((a, b)) = first.split_once('-') {
            if let (Ok(s), Ok(e)) = (usize::from_str_radix(a, 16), usize::from_str_radix(b, 16)) {
                let perms = line.split_whitespace().nth(1).unwrap_or("").to_string();
                out.push(Vma { start: s, end: e, perms, locked_flag: false, dontdump: false });
                continue;
            }
        }
        if let Some(rest) = line.strip_prefix("VmFlags:") {
            if let Some(v) = out.last_mut() {
                for fl in rest.split_whitespace() {
                    if fl == "lo" {
                        v.locked_flag = true;
                    }
                    if fl == "dd" {
                        v.dontdump = true;
                    }
                }
            }
        }
    }
    out
}

pub fn vma_of(vmas: &[Vma], addr: usize) -> Option<&Vma> {
    vmas.iter().find(|v| v.start <= addr && addr < v.end)
}

/// VmLck in kB
pub fn vm_lck_kb() -> u64 {
    let text = std::fs::read_to_string("/proc/self/status").unwrap_or_default();
    for l in text.lines() {
        if let Some(r) = l.strip_prefix("VmLck:") {
            return r.trim().trim_end_matches("kB").trim().parse().unwrap_or(0);
        }
    }
    0
}

#[derive(Debug, Clone, Copy, PartialEq, Eq)]
pub enum Access {
    Read,
    Write,
}

#[derive(Debug, Clone, Copy, PartialEq, Eq)]
pub enum ProbeResult {
    Ok,
    Faulted,
    Other(i32),
}

/// Fork a process that performs one volatile access at `addr` and report what happened to it.
pub fn probe(addr: usize, access: Access) -> ProbeResult {
    unsafe {
        let pid = libc::fork();
        if pid < 0 {
            return ProbeResult::Other(-1);
        }
        if pid == 0 {
            libc::signal(libc::SIGSEGV, libc::SIG_DFL);
            libc::signal(libc::SIGBUS, libc::SIG_DFL);
            let p = addr as *mut u8;
            match access {
                Access::Read => {
                    let v = std::ptr::read_volatile(p);
                    std::hint::black_box(v);
                }
                Access::Write => {
                    let v = std::ptr::read_volatile(p as *const u8);
                    std::ptr::write_volatile(p, v.wrapping_add(1));
                }
            }
            libc::_exit(0);
        }
        let mut status = 0;
        loop {
            let r = libc::waitpid(pid, &mut status, 0);
            if r == pid {
                break;
            }
            if r < 0 && *libc::__errno_location() != libc::EINTR {
                return ProbeResult::Other(-2);
            }
        }
        if libc::WIFEXITED(status) && libc::WEXITSTATUS(status) == 0 {
            ProbeResult::Ok
        } else if libc::WIFSIGNALED(status) && (libc::WTERMSIG(status) == libc::SIGSEGV || libc::WTERMSIG(status) == libc::SIGBUS) {
            ProbeResult::Faulted
        } else {
            ProbeResult::Other(status)
        }
    }
}

/// write-only probe for read-only regions whose page may be write-protected: a pure write (no read first)
pub fn probe_write_only(addr: usize) -> ProbeResult {
    unsafe {
        let pid = libc::fork();
        if pid < 0 {
            return ProbeResult::Other(-1);
        }
        if pid == 0 {
            libc::signal(libc::SIGSEGV, libc::SIG_DFL);
            libc::signal(libc::SIGBUS, libc::SIG_DFL);
            std::ptr::write_volatile(addr as *mut u8, 0x5a);
            libc::_exit(0);
        }
        let mut status = 0;
        loop {
            let r = libc::waitpid(pid, &mut status, 0);
            if r == pid {
                break;
            }
            if r < 0 && *libc::__errno_location() != libc::EINTR {
                return ProbeResult::Other(-2);
            }
        }
        if libc::WIFEXITED(status) && libc::WEXITSTATUS(status) == 0 {
            ProbeResult::Ok
        } else if libc::WIFSIGNALED(status) && (libc::WTERMSIG(status) == libc::SIGSEGV || libc::WTERMSIG(status) == libc::SIGBUS) {
            ProbeResult::Faulted
        } else {
            ProbeResult::Other(status)
        }
    }
}

// ---------------------------------------------------------------- mlock interposer
/// number of mlock calls seen so far in this process
pub static MLOCK_CALLS: AtomicU64 = AtomicU64::new(0);
/// refuse the k-th (1-based) and every later call when > 0
pub static MLOCK_REFUSE_FROM: AtomicI64 = AtomicI64::new(0);
pub static MLOCK_REFUSED: AtomicU64 = AtomicU64::new(0);
/// errno reported by a refused call (ENOMEM, EAGAIN, EPERM are what mlock(2) documents)
pub static MLOCK_ERRNO: AtomicI64 = AtomicI64::new(libc::ENOMEM as i64);

/// Interposes libc's mlock for the whole (statically linked) harness binary: dryoc's call resolves
/// here. Forwards to the real system call unless the fault plan says to refuse.
#[no_mangle]
pub unsafe extern "C" fn mlock(addr: *const libc::c_void, len: libc::size_t) -> libc::c_int {
    let n = MLOCK_CALLS.fetch_add(1, Ordering::SeqCst) + 1;
    let from = MLOCK_REFUSE_FROM.load(Ordering::SeqCst);
    if from > 0 && n as i64 >= from {
        MLOCK_REFUSED.fetch_add(1, Ordering::SeqCst);
        *libc::__errno_location() = MLOCK_ERRNO.load(Ordering::SeqCst) as libc::c_int;
        return -1;
    }
    libc::syscall(libc::SYS_mlock, addr, len) as libc::c_int
}

// ---------------------------------------------------------------- allocator observers
#[derive(Debug, Clone, Copy)]
pub struct AllocEvent {
    pub alloc: bool,
    pub addr: usize,
    pub size: usize,
    pub nonzero: usize,
}

static mut EVENTS: Vec<AllocEvent> = Vec::new();

fn on_release(addr: usize, size: usize, nonzero: usize) {
    unsafe {
        #[allow(static_mut_refs)]
        EVENTS.push(AllocEvent { alloc: false, addr, size, nonzero });
    }
}
fn on_alloc(addr: usize, size: usize) {
    unsafe {
        #[allow(static_mut_refs)]
        EVENTS.push(AllocEvent { alloc: true, addr, size, nonzero: 0 });
    }
}

/// single-threaded use only (history children)
pub fn install_observers() {
    dryoc::protected::verif::set_release_observer(Some(on_release));
    dryoc::protected::verif::set_alloc_observer(Some(on_alloc));
}

pub fn events() -> Vec<AllocEvent> {
    unsafe {
        #[allow(static_mut_refs)]
        EVENTS.clone()
    }
}

pub fn events_len() -> usize {
    unsafe {
        #[allow(static_mut_refs)]
        EVENTS.len()
    }
}

/// size (layout.size()) of the live allocation whose data pointer is `addr`, if the observer saw it
pub fn live_alloc_size(addr: usize) -> Option<usize> {
    let mut size = None;
    for e in events() {
        if e.addr == addr {
            size = if e.alloc { Some(e.size) } else { None };
        }
    }
    size
}

pub use crate::core::in_child;
