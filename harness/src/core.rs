//! Shared machinery: tiers, deterministic fills, evidence, violations, proptest driver.
use std::cell::RefCell;
use std::collections::{BTreeMap, HashSet};
use std::fmt::Debug;
use std::time::Instant;

use proptest::strategy::{Strategy, ValueTree};
use proptest::test_runner::{Config, RngSeed, TestCaseError, TestError, TestRunner};
use serde::{de::DeserializeOwned, Deserialize, Serialize};
use serde_json::{json, Value};

#[derive(Clone, Copy, PartialEq, Eq, Debug)]
pub enum Tier {
    Quick,
    Thorough,
}

impl Tier {
    pub fn pick<T>(self, q: T, t: T) -> T {
        match self {
            Tier::Quick => q,
            Tier::Thorough => t,
        }
    }
    pub fn name(self) -> &'static str {
        match self {
            Tier::Quick => "quick",
            Tier::Thorough => "thorough",
        }
    }
}

/// Byte vector that serialises as a hex string (replay files stay readable).
#[derive(Clone, PartialEq, Eq, Hash, Default)]
pub struct Hex(pub Vec<u8>);

impl Debug for Hex {
    fn fmt(&self, f: &mut std::fmt::Formatter<'_>) -> std::fmt::Result {
        write!(f, "h\"{}\"", hex::encode(&self.0))
    }
}
impl Serialize for Hex {
    fn serialize<S: serde::Serializer>(&self, s: S) -> Result<S::Ok, S::Error> {
        s.serialize_str(&hex::encode(&self.0))
    }
}
impl<'de> Deserialize<'de> for Hex {
    fn deserialize<D: serde::Deserializer<'de>>(d: D) -> Result<Self, D::Error> {
        let s = String::deserialize(d)?;
        hex::decode(&s).map(Hex).map_err(serde::de::Error::custom)
    }
}
impl From<Vec<u8>> for Hex {
    fn from(v: Vec<u8>) -> Self {
        Hex(v)
    }
}
impl From<&[u8]> for Hex {
    fn from(v: &[u8]) -> Self {
        Hex(v.to_vec())
    }
}
impl std::ops::Deref for Hex {
    type Target = Vec<u8>;
    fn deref(&self) -> &Vec<u8> {
        &self.0
    }
}

pub fn hx(b: &[u8]) -> String {
    hex::encode(b)
}

/// Deterministic fill generator (splitmix64). Every enumerated case derives its
/// fill bytes from (VERIF_SEED, case label), and replay files carry the
/// concrete bytes, so no replay depends on this generator.
#[derive(Clone)]
pub struct Fill(u64);

impl Fill {
    pub fn new(seed: u64, label: &str) -> Self {
        let mut h = seed ^ 0x9e37_79b9_7f4a_7c15;
        for b in label.bytes() {
            h = (h ^ b as u64).wrapping_mul(0x100_0000_01b3);
            h ^= h >> 29;
        }
        Fill(h)
    }
    pub fn sub(&self, n: u64) -> Self {
        let mut f = Fill(self.0 ^ n.wrapping_mul(0xd6e8_feb8_6659_fd93));
        f.next_u64();
        f
    }
    pub fn next_u64(&mut self) -> u64 {
        self.0 = self.0.wrapping_add(0x9e37_79b9_7f4a_7c15);
        let mut z = self.0;
        z = (z ^ (z >> 30)).wrapping_mul(0xbf58_476d_1ce4_e5b9);
        z = (z ^ (z >> 27)).wrapping_mul(0x94d0_49bb_1331_11eb);
        z ^ (z >> 31)
    }
    pub fn below(&mut self, n: u64) -> u64 {
        if n == 0 {
            0
        } else {
            ((self.next_u64() as u128 * n as u128) >> 64) as u64
        }
    }
    pub fn bytes(&mut self, n: usize) -> Vec<u8> {
        let mut v = vec![0u8; n];
        self.fill(&mut v);
        v
    }
    pub fn fill(&mut self, v: &mut [u8]) {
        for c in v.chunks_mut(8) {
            let x = self.next_u64().to_le_bytes();
            c.copy_from_slice(&x[..c.len()]);
        }
    }
    pub fn arr<const N: usize>(&mut self) -> [u8; N] {
        let mut a = [0u8; N];
        self.fill(&mut a);
        a
    }
    /// content classes used across properties
    pub fn content(&mut self, class: usize, n: usize) -> Vec<u8> {
        match class % 5 {
            0 => self.bytes(n),
            1 => vec![0u8; n],
            2 => vec![0xffu8; n],
            3 => (0..n).map(|i| i as u8).collect(),
            _ => {
                let mut v = vec![0x80u8; n];
                if n > 0 {
                    v[n - 1] = 0x01;
                }
                v
            }
        }
    }
}

pub fn fnv64(parts: &[&[u8]]) -> u64 {
    let mut h: u64 = 0xcbf2_9ce4_8422_2325;
    for p in parts {
        for b in *p {
            h ^= *b as u64;
            h = h.wrapping_mul(0x100_0000_01b3);
        }
        h ^= 0xff;
        h = h.wrapping_mul(0x100_0000_01b3);
    }
    h
}

#[derive(Debug, Clone, Serialize, Deserialize)]
pub struct Violation {
    pub property: String,
    pub kind: String,
    pub message: String,
    pub case: Value,
}

impl Violation {
    pub fn new(property: &str, kind: &str, message: impl Into<String>, case: Value) -> Self {
        Violation {
            property: property.into(),
            kind: kind.into(),
            message: message.into(),
            case,
        }
    }
}

/// Evidence accumulator (one per worker; merged at the end).
#[derive(Default, Clone, Serialize, Deserialize)]
pub struct Evidence {
    pub evaluations: u64,
    pub nontrivial: HashSet<u64>,
    pub classes: BTreeMap<String, u64>,
    pub samples: Vec<Value>,
    pub sample_cap: usize,
    pub excluded: BTreeMap<String, u64>,
    pub known_hits: BTreeMap<String, u64>,
    pub extra: BTreeMap<String, Value>,
    pub frozen: bool,
}

impl Evidence {
    pub fn new() -> Self {
        Evidence {
            sample_cap: 12,
            ..Default::default()
        }
    }
    pub fn eval(&mut self, n: u64) {
        if !self.frozen {
            self.evaluations += n;
        }
    }
    pub fn nontrivial(&mut self, h: u64) {
        if !self.frozen {
            self.nontrivial.insert(h);
        }
    }
    pub fn class(&mut self, c: &str) {
        if !self.frozen {
            *self.classes.entry(c.to_string()).or_insert(0) += 1;
        }
    }
    pub fn class_n(&mut self, c: &str, n: u64) {
        if !self.frozen {
            *self.classes.entry(c.to_string()).or_insert(0) += n;
        }
    }
    pub fn excluded(&mut self, c: &str) {
        if !self.frozen {
            *self.excluded.entry(c.to_string()).or_insert(0) += 1;
        }
    }
    /// keep the first sample of each distinct `class` until the cap is reached
    pub fn sample(&mut self, class: &str, v: impl FnOnce() -> Value) {
        if self.frozen || self.samples.len() >= self.sample_cap {
            return;
        }
        let key = format!("sampled:{class}");
        if self.extra.contains_key(&key) {
            return;
        }
        self.extra.insert(key, Value::Bool(true));
        let mut s = v();
        if let Value::Object(m) = &mut s {
            m.insert("class".into(), Value::String(class.into()));
        }
        self.samples.push(s);
    }
    pub fn merge(&mut self, o: Evidence) {
        self.evaluations += o.evaluations;
        self.nontrivial.extend(o.nontrivial);
        for (k, v) in o.classes {
            *self.classes.entry(k).or_insert(0) += v;
        }
        for (k, v) in o.excluded {
            *self.excluded.entry(k).or_insert(0) += v;
        }
        for (k, v) in o.known_hits {
            *self.known_hits.entry(k).or_insert(0) += v;
        }
        for s in o.samples {
            if self.samples.len() < self.sample_cap.max(12) * 2 {
                self.samples.push(s);
            }
        }
        for (k, v) in o.extra {
            if !k.starts_with("sampled:") {
                self.extra.insert(k, v);
            }
        }
    }
}

pub struct Ctx {
    pub id: String,
    pub tier: Tier,
    pub seed: u64,
    pub ev: Evidence,
    pub start: Instant,
    pub rule: String,
    pub level: &'static str,
    pub assumptions: Vec<String>,
    pub exhaustive: Option<bool>,
    pub threads: usize,
}

impl Ctx {
    pub fn new(id: &str, tier: Tier, seed: u64) -> Self {
        Ctx {
            id: id.into(),
            tier,
            seed,
            ev: Evidence::new(),
            start: Instant::now(),
            rule: String::new(),
            level: "exploration",
            assumptions: vec![],
            exhaustive: None,
            threads: std::env::var("VERIF_THREADS")
                .ok()
                .and_then(|s| s.parse().ok())
                .unwrap_or(16),
        }
    }
    pub fn fill(&self, label: &str) -> Fill {
        Fill::new(self.seed, &format!("{}:{}", self.id, label))
    }

    pub fn evidence_json(&self, violations: u64) -> Value {
        let mut cov = serde_json::Map::new();
        cov.insert("evaluations".into(), json!(self.ev.evaluations));
        cov.insert("distinct_nontrivial".into(), json!(self.ev.nontrivial.len()));
        cov.insert("rule".into(), json!(self.rule));
        cov.insert("samples".into(), json!(self.ev.samples));
        cov.insert("classes".into(), json!(self.ev.classes));
        if !self.ev.excluded.is_empty() {
            cov.insert("excluded_by_construction".into(), json!(self.ev.excluded));
        }
        if !self.ev.known_hits.is_empty() {
            cov.insert("known_finding_hits".into(), json!(self.ev.known_hits));
        }
        if let Some(e) = self.exhaustive {
            cov.insert("exhaustive".into(), json!(e));
        }
        for (k, v) in &self.ev.extra {
            if !k.starts_with("sampled:") {
                cov.insert(k.clone(), v.clone());
            }
        }
        json!({
            "property_id": self.id,
            "tier": self.tier.name(),
            "seed": self.seed,
            "level": self.level,
            "coverage": Value::Object(cov),
            "assumptions": self.assumptions,
            "wall_s": self.start.elapsed().as_secs_f64(),
            "violations": violations,
        })
    }

    /// Run `f` over `items` on `threads` workers; each worker gets its own Evidence.
    /// Returns the violation with the smallest item index (deterministic).
    pub fn par_each<T: Sync, F>(&mut self, items: &[T], f: F) -> Result<(), Violation>
    where
        F: Fn(usize, &T, &mut Evidence) -> Result<(), Violation> + Sync,
    {
        let n = self.threads.max(1).min(items.len().max(1));
        let next = std::sync::atomic::AtomicUsize::new(0);
        let first_fail = std::sync::atomic::AtomicUsize::new(usize::MAX);
        let results: Vec<(Evidence, Option<(usize, Violation)>)> = std::thread::scope(|s| {
            let hs: Vec<_> = (0..n)
                .map(|_| {
                    s.spawn(|| {
                        let mut ev = Evidence::new();
                        let mut fail = None;
                        loop {
                            let i = next.fetch_add(1, std::sync::atomic::Ordering::SeqCst);
                            if i >= items.len()
                                || i > first_fail.load(std::sync::atomic::Ordering::SeqCst)
                            {
                                break;
                            }
                            let r = std::panic::catch_unwind(std::panic::AssertUnwindSafe(|| {
                                f(i, &items[i], &mut ev)
                            }));
                            let r = match r {
                                Ok(r) => r,
                                Err(p) => Err(Violation::new(
                                    "?",
                                    "harness-panic",
                                    format!("unexpected panic in work item {i}: {}", panic_msg(&p)),
                                    json!({ "item": i }),
                                )),
                            };
                            if let Err(v) = r {
                                first_fail.fetch_min(i, std::sync::atomic::Ordering::SeqCst);
                                fail = Some((i, v));
                                break;
                            }
                        }
                        (ev, fail)
                    })
                })
                .collect();
            hs.into_iter().map(|h| h.join().unwrap()).collect()
        });
        let mut best: Option<(usize, Violation)> = None;
        for (ev, fail) in results {
            self.ev.merge(ev);
            if let Some((i, v)) = fail {
                if best.as_ref().map_or(true, |(bi, _)| i < *bi) {
                    best = Some((i, v));
                }
            }
        }
        match best {
            Some((_, v)) => Err(v),
            None => Ok(()),
        }
    }
}

pub fn panic_msg(p: &Box<dyn std::any::Any + Send>) -> String {
    if let Some(s) = p.downcast_ref::<&str>() {
        s.to_string()
    } else if let Some(s) = p.downcast_ref::<String>() {
        s.clone()
    } else {
        "<non-string panic>".into()
    }
}

/// Run `f`, converting a panic into Err(message).
pub fn no_panic<R>(f: impl FnOnce() -> R) -> Result<R, String> {
    std::panic::catch_unwind(std::panic::AssertUnwindSafe(f)).map_err(|p| panic_msg(&p))
}

thread_local! {
    pub static LAST_PANIC_LOC: RefCell<String> = RefCell::new(String::new());
}

pub fn install_quiet_panic_hook() {
    std::panic::set_hook(Box::new(|info| {
        let loc = info
            .location()
            .map(|l| format!("{}:{}", l.file(), l.line()))
            .unwrap_or_default();
        LAST_PANIC_LOC.with(|l| *l.borrow_mut() = loc);
        if std::env::var("VERIF_VERBOSE_PANIC").is_ok() {
            eprintln!("panic: {info}");
        }
    }));
}

pub fn last_panic_loc() -> String {
    LAST_PANIC_LOC.with(|l| l.borrow().clone())
}

/// Drive a proptest strategy from a binary with a fixed seed. `f` returns
/// Err(message) on a property failure. Evidence recording is frozen as soon as
/// the first failure is seen because proptest re-runs `f` while shrinking.
pub fn run_prop<S, F>(
    property: &str,
    kind: &str,
    seed: u64,
    cases: u32,
    strat: S,
    ev: &mut Evidence,
    f: F,
) -> Result<(), Violation>
where
    S: Strategy,
    S::Value: Serialize + Debug + Clone,
    F: Fn(&S::Value, &mut Evidence) -> Result<(), String>,
{
    let cfg = Config {
        cases,
        failure_persistence: None,
        rng_seed: RngSeed::Fixed(seed),
        max_shrink_iters: 4096,
        max_global_rejects: 65536,
        verbose: 0,
        ..Config::default()
    };
    let mut runner = TestRunner::new(cfg);
    let cell = RefCell::new(std::mem::take(ev));
    let res = runner.run(&strat, |v| {
        let mut e = cell.borrow_mut();
        match no_panic(|| f(&v, &mut e)) {
            Ok(Ok(())) => Ok(()),
            Ok(Err(m)) => {
                e.frozen = true;
                Err(TestCaseError::fail(m))
            }
            Err(p) => {
                e.frozen = true;
                Err(TestCaseError::fail(format!(
                    "panic: {p} at {}",
                    last_panic_loc()
                )))
            }
        }
    });
    *ev = cell.into_inner();
    ev.frozen = false;
    match res {
        Ok(()) => Ok(()),
        Err(TestError::Fail(reason, value)) => Err(Violation::new(
            property,
            kind,
            format!("{}", reason.message()),
            serde_json::to_value(&value).unwrap_or(Value::Null),
        )),
        Err(TestError::Abort(reason)) => {
            // too many rejects etc: a generator problem, not a violation
            eprintln!("INCONCLUSIVE: proptest aborted: {}", reason.message());
            std::process::exit(2);
        }
    }
}

/// Produce `n` values from a strategy deterministically (no shrinking); used to
/// pre-generate work lists that are then processed in parallel.
pub fn sample_strategy<S: Strategy>(seed: u64, n: usize, strat: &S) -> Vec<S::Value> {
    let cfg = Config {
        failure_persistence: None,
        rng_seed: RngSeed::Fixed(seed),
        ..Config::default()
    };
    let mut runner = TestRunner::new(cfg);
    (0..n)
        .map(|_| strat.new_tree(&mut runner).expect("strategy").current())
        .collect()
}

/// Shrink a failing value of `strat` found outside `TestRunner::run` by replaying
/// generation is not possible; instead callers that pre-generate lists re-run
/// the failing index through `run_prop` with a strategy pinned to that case.
pub fn from_case<T: DeserializeOwned>(v: &Value) -> Result<T, String> {
    serde_json::from_value(v.clone()).map_err(|e| format!("bad replay case: {e}"))
}

/// Known-finding registry (committed file /verif/known_findings.jsonl).
#[derive(Debug, Clone, Deserialize)]
pub struct KnownFinding {
    pub status: String, // "open" | "fixed"
    pub property: String,
    pub signature: String,
    #[serde(default)]
    pub commit: String,
    pub what: String,
}

pub fn load_known_findings(path: &str) -> Vec<KnownFinding> {
    let Ok(s) = std::fs::read_to_string(path) else {
        return vec![];
    };
    s.lines()
        .filter(|l| l.trim_start().starts_with('{'))
        .filter_map(|l| serde_json::from_str(l).ok())
        .collect()
}

/// Run `f` in a forked child with an alarm; the child reports (code, text) through a pipe.
/// Returns (exit status or -signal, text). Call only while no other threads are running.
pub fn in_child(timeout_s: u32, f: impl FnOnce() -> (i32, String)) -> (i32, String) {
    unsafe {
        let mut fds = [0i32; 2];
        if libc::pipe(fds.as_mut_ptr()) != 0 {
            return (-1000, "pipe failed".into());
        }
        let pid = libc::fork();
        if pid < 0 {
            return (-1000, "fork failed".into());
        }
        if pid == 0 {
            libc::close(fds[0]);
            libc::alarm(timeout_s);
            let r = std::panic::catch_unwind(std::panic::AssertUnwindSafe(f));
            let (code, text) = match r {
                Ok(x) => x,
                Err(p) => (3, format!("harness child panicked: {}", panic_msg(&p))),
            };
            let b = text.as_bytes();
            let mut off = 0;
            while off < b.len() {
                let w = libc::write(fds[1], b[off..].as_ptr() as *const libc::c_void, b.len() - off);
                if w <= 0 {
                    break;
                }
                off += w as usize;
            }
            libc::close(fds[1]);
            libc::_exit(code);
        }
        libc::close(fds[1]);
        let mut text = Vec::new();
        let mut buf = [0u8; 4096];
        loop {
            let r = libc::read(fds[0], buf.as_mut_ptr() as *mut libc::c_void, buf.len());
            if r > 0 {
                text.extend_from_slice(&buf[..r as usize]);
            } else if r == 0 {
                break;
            } else if *libc::__errno_location() != libc::EINTR {
                break;
            }
        }
        libc::close(fds[0]);
        let mut status = 0;
        loop {
            let r = libc::waitpid(pid, &mut status, 0);
            if r == pid {
                break;
            }
            if r < 0 && *libc::__errno_location() != libc::EINTR {
                return (-1000, "waitpid failed".into());
            }
        }
        let text = String::from_utf8_lossy(&text).into_owned();
        if libc::WIFEXITED(status) {
            (libc::WEXITSTATUS(status), text)
        } else if libc::WIFSIGNALED(status) {
            (-libc::WTERMSIG(status), text)
        } else {
            (-1000, text)
        }
    }
}
