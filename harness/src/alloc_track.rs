//! Counting global allocator: per-thread largest single allocation, and a hard stop that turns an
//! absurd request (which would otherwise abort or OOM the process) into a reported C04 violation.
use std::alloc::{GlobalAlloc, Layout, System};
use std::cell::Cell;

pub struct Tracking;

thread_local! {
    static MAX_ALLOC: Cell<usize> = const { Cell::new(0) };
    static TRACKING: Cell<bool> = const { Cell::new(false) };
    /// pointer/len of a JSON document describing the case being executed (valid while TRACKING)
    static CUR_CASE: Cell<(*const u8, usize)> = const { Cell::new((std::ptr::null(), 0)) };
}

/// any single allocation above this while tracking is "absurd" for the inputs C04 generates
pub const HARD_LIMIT: usize = 1 << 32;

unsafe impl GlobalAlloc for Tracking {
    unsafe fn alloc(&self, l: Layout) -> *mut u8 {
        note(l.size());
        System.alloc(l)
    }
    unsafe fn dealloc(&self, p: *mut u8, l: Layout) {
        System.dealloc(p, l)
    }
    unsafe fn alloc_zeroed(&self, l: Layout) -> *mut u8 {
        note(l.size());
        System.alloc_zeroed(l)
    }
    unsafe fn realloc(&self, p: *mut u8, l: Layout, n: usize) -> *mut u8 {
        note(n);
        System.realloc(p, l, n)
    }
}

#[inline]
fn note(size: usize) {
    let _ = TRACKING.try_with(|t| {
        if t.get() {
            let _ = MAX_ALLOC.try_with(|m| {
                if size > m.get() {
                    m.set(size);
                }
            });
            if size >= HARD_LIMIT {
                absurd(size);
            }
        }
    });
}

#[cold]
fn absurd(size: usize) {
    // No allocation allowed here: write the replay file and the VIOLATION line with raw syscalls.
    let (p, n) = CUR_CASE.with(|c| c.get());
    let path = b"/verif/replays/C04/absurd-allocation.json\0";
    unsafe {
        libc::mkdir(b"/verif/replays\0".as_ptr() as *const libc::c_char, 0o755);
        libc::mkdir(b"/verif/replays/C04\0".as_ptr() as *const libc::c_char, 0o755);
        let fd = libc::open(path.as_ptr() as *const libc::c_char, libc::O_WRONLY | libc::O_CREAT | libc::O_TRUNC, 0o644);
        if fd >= 0 {
            if !p.is_null() {
                libc::write(fd, p as *const libc::c_void, n);
            }
            libc::close(fd);
        }
        let mut buf = [0u8; 160];
        let head = b"violation detail: allocation request of ";
        let mut i = 0;
        for b in head {
            buf[i] = *b;
            i += 1;
        }
        let mut digits = [0u8; 24];
        let mut k = 0;
        let mut s = size;
        loop {
            digits[k] = b'0' + (s % 10) as u8;
            k += 1;
            s /= 10;
            if s == 0 {
                break;
            }
        }
        while k > 0 {
            k -= 1;
            buf[i] = digits[k];
            i += 1;
        }
        let tail = b" bytes while handling untrusted input\nVIOLATION property=C04 replay=/verif/replays/C04/absurd-allocation.json\n";
        for b in tail {
            buf[i] = *b;
            i += 1;
        }
        libc::write(1, buf.as_ptr() as *const libc::c_void, i);
        libc::_exit(1);
    }
}

/// Run `f` with allocation tracking; returns (result, largest single allocation in bytes).
/// `case_json` must outlive the call (it is only read if the hard limit trips).
pub fn tracked<R>(case_json: &str, f: impl FnOnce() -> R) -> (R, usize) {
    CUR_CASE.with(|c| c.set((case_json.as_ptr(), case_json.len())));
    MAX_ALLOC.with(|m| m.set(0));
    TRACKING.with(|t| t.set(true));
    let r = std::panic::catch_unwind(std::panic::AssertUnwindSafe(f));
    TRACKING.with(|t| t.set(false));
    CUR_CASE.with(|c| c.set((std::ptr::null(), 0)));
    let m = MAX_ALLOC.with(|m| m.get());
    match r {
        Ok(r) => (r, m),
        Err(p) => std::panic::resume_unwind(p),
    }
}
