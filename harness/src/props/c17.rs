//! C17 — a failed open releases nothing derived from the rejected ciphertext (shares C02's enumerator).
use super::c02::{replay_mode, run_mode, Mode};
use crate::core::*;

pub fn run(ctx: &mut Ctx) -> Result<(), Violation> {
    ctx.rule = "C02's exhaustive single-fault family (every bit flip of tag/ciphertext/nonce/key/ephemeral key/header/AD, every truncation, extension family) for every message length in the tier's list, over every classic open function that writes into a caller buffer (secretbox/box/afternm/seal_open in easy, detached and in-place forms; stream pull). The caller's message buffer is pre-filled with a position-dependent sentinel (copying forms) or holds the ciphertext (in-place forms); the stream tag variable holds sentinel 0xA5. Oracle on Err: every byte of the buffer is what the caller passed in or zero (an implementation may clear only the plaintext area); truncated ciphertexts are additionally opened into a buffer sized for the expected plaintext; tag variable untouched; diagnostic: does the buffer share an 8-byte window with ciphertext XOR keystream computed by the reference. Control: authentic input opens to the plaintext and reports the pushed tag. Non-trivial: faulted open of a message of length >= 1 that returned Err; distinct = (opener, length, fault, fill).".into();
    ctx.assumptions = vec!["object API exposes only Result (no caller buffer), so it is asserted in C02; C17 observes classic functions".into()];
    run_mode(ctx, Mode::C17)
}

pub fn replay(v: &Violation) -> Result<(), String> {
    replay_mode(v, Mode::C17)
}
