//! C19 — see DESIGN.md §3; implemented by the shared protected-memory driver (props/prot.rs).
use crate::core::*;

#[cfg(feature = "nightly")]
pub fn run(ctx: &mut Ctx) -> Result<(), Violation> {
    ctx.rule = "C14 histories (canonical paths + proptest-random) crossed with fault plans: for each history the fault-free run counts the mlock calls n, then for every k in 1..=n+1 the history is re-run in a fresh forked process with the k-th and all later mlock calls refused with ENOMEM by an interposed mlock symbol. Oracle: no panic and no crash: every Result-returning constructor/transition returns (Err consumes the region); regions created before the fault keep passing the C14 per-step kernel-view oracle; releases are all-zero (C15 observer); after dropping everything VmLck is back to baseline and page rights are restored. Clone and resize of locked regions (not Result-returning) are generated only before the fault point. Non-trivial: (history, k) where a lock call was actually refused while >= 1 earlier region was alive; distinct = hash(history, k).".into();
    ctx.assumptions = vec![
        "Linux only (/proc, mlock, mprotect); the process runs as root so RLIMIT_MEMLOCK is not enforced and lock refusal is injected by symbol interposition".into(),
        "page size 4096 (checked at run time)".into(),
    ];
    ctx.level = "fault_enumeration";
    super::prot::run(ctx, super::prot::Which::C19)
}

#[cfg(feature = "nightly")]
pub fn replay(v: &Violation) -> Result<(), String> {
    super::prot::replay(v, super::prot::Which::C19)
}

#[cfg(not(feature = "nightly"))]
pub fn run(_ctx: &mut Ctx) -> Result<(), Violation> {
    eprintln!("C19 needs the nightly build configuration");
    std::process::exit(2);
}

#[cfg(not(feature = "nightly"))]
pub fn replay(_v: &Violation) -> Result<(), String> {
    Err("C19 needs the nightly build configuration".into())
}
