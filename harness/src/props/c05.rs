//! C05 — X25519 is exact for every scalar and point; DH, box precomputation and key exchange agree.
use crate::core::*;
use crate::{models, sodium};
use dryoc::classic::crypto_box::crypto_box_beforenm;
use dryoc::classic::crypto_core::{crypto_scalarmult, crypto_scalarmult_base};
use dryoc::classic::crypto_kx::{crypto_kx_client_session_keys, crypto_kx_server_session_keys};
use dryoc::keypair::KeyPair;
use dryoc::kx::Session;
use dryoc::precalc::PrecalcSecretKey;
use dryoc::types::*;
use num_bigint::BigUint;
use num_traits::One;
use proptest::prelude::*;
use serde::{Deserialize, Serialize};
use serde_json::json;

#[derive(Debug, Clone, Serialize, Deserialize)]
pub struct Case {
    pub scalar: Hex,
    pub point: Hex,
}

fn a32(h: &Hex) -> Result<[u8; 32], String> {
    h.0.clone().try_into().map_err(|_| "need 32 bytes".to_string())
}

pub struct Info {
    pub twist: bool,
    pub prime_subgroup: bool,
    pub noncanonical: bool,
    pub highbit: bool,
    pub sodium_refused: bool,
}

pub fn classify(point: &[u8; 32]) -> (bool, bool, bool, bool) {
    let twist = !models::mont_on_curve(point);
    let sub = models::mont_in_prime_subgroup(point);
    let mut pb = *point;
    pb[31] &= 127;
    let noncanon = BigUint::from_bytes_le(&pb) >= models::fp();
    (twist, sub, noncanon, point[31] & 0x80 != 0)
}

/// key exchange with `p` as the peer's public key, `n` as our secret key and `my_pk` as our public key.
/// libsodium hashes the caller-supplied public keys as given (it never recomputes them from the secret
/// key), so `my_pk` is also exercised with values that are NOT the base-point multiple of `n`.
fn check_kx(my_pk: [u8; 32], n: [u8; 32], p: [u8; 32], shared_zero: bool, own: &str) -> Result<(), String> {
    // key exchange with `p` as the peer's public key and n as our secret key
    let refc = sodium::kx_client(&my_pk, &n, &p);
    let refs = sodium::kx_server(&my_pk, &n, &p);
    if refc.is_none() != shared_zero || refs.is_none() != shared_zero {
        return Err("harness: libsodium kx refusal does not coincide with an all-zero shared secret".into());
    }
    let (mut rx, mut tx) = ([0u8; 32], [0u8; 32]);
    let dc = crypto_kx_client_session_keys(&mut rx, &mut tx, &my_pk, &n, &p);
    match (&dc, &refc) {
        (Ok(()), Some((rrx, rtx))) => {
            if rx != *rrx || tx != *rtx {
                return Err(format!("crypto_kx_client_session_keys(client_pk={} [{own}], server_pk={}) keys differ from libsodium", hx(&my_pk), hx(&p)));
            }
        }
        (Err(_), None) => {}
        (Ok(()), None) => return Err(format!("crypto_kx_client_session_keys accepted server key {} whose shared secret is all-zero (libsodium refuses)", hx(&p))),
        (Err(e), Some(_)) => return Err(format!("crypto_kx_client_session_keys refused a peer key libsodium accepts: {e:?}")),
    }
    let (mut srx, mut stx) = ([0u8; 32], [0u8; 32]);
    let ds = crypto_kx_server_session_keys(&mut srx, &mut stx, &my_pk, &n, &p);
    match (&ds, &refs) {
        (Ok(()), Some((rrx, rtx))) => {
            if srx != *rrx || stx != *rtx {
                return Err(format!("crypto_kx_server_session_keys(server_pk={} [{own}], client_pk={}) keys differ from libsodium", hx(&my_pk), hx(&p)));
            }
        }
        (Err(_), None) => {}
        (Ok(()), None) => return Err(format!("crypto_kx_server_session_keys accepted client key {} whose shared secret is all-zero (libsodium refuses)", hx(&p))),
        (Err(e), Some(_)) => return Err(format!("crypto_kx_server_session_keys refused a peer key libsodium accepts: {e:?}")),
    }
    // object API
    let kp = KeyPair::<StackByteArray<32>, StackByteArray<32>>::from_slices(&my_pk, &n).map_err(|e| format!("{e:?}"))?;
    let peer = StackByteArray::<32>::from(p);
    let oc: Result<Session<StackByteArray<32>>, _> = Session::new_client(&kp, &peer);
    let os: Result<Session<StackByteArray<32>>, _> = kp.kx_new_server_session(&peer);
    match (&oc, &refc) {
        (Ok(s), Some((rrx, rtx))) => {
            if s.rx_as_array() != rrx || s.tx_as_array() != rtx {
                return Err(format!("kx::Session::new_client keys differ from libsodium (own public key {own})"));
            }
        }
        (Err(_), None) => {}
        (Ok(_), None) => return Err("kx::Session::new_client accepted a peer key whose shared secret is all-zero".into()),
        (Err(e), Some(_)) => return Err(format!("kx::Session::new_client refused a valid peer key: {e:?}")),
    }
    match (&os, &refs) {
        (Ok(s), Some((rrx, rtx))) => {
            if s.rx_as_slice() != rrx || s.tx_as_slice() != rtx {
                return Err(format!("KeyPair::kx_new_server_session keys differ from libsodium (own public key {own})"));
            }
        }
        (Err(_), None) => {}
        (Ok(_), None) => return Err("KeyPair::kx_new_server_session accepted a peer key whose shared secret is all-zero".into()),
        (Err(e), Some(_)) => return Err(format!("KeyPair::kx_new_server_session refused a valid peer key: {e:?}")),
    }
    Ok(())
}

pub fn check(c: &Case) -> Result<Info, String> {
    let n = a32(&c.scalar)?;
    let p = a32(&c.point)?;
    let model = models::x25519(&n, &p);
    let sod = sodium::scalarmult(&n, &p);
    match &sod {
        Some(q) => {
            if *q != model {
                return Err(format!("harness: libsodium {} != RFC 7748 model {}", hx(q), hx(&model)));
            }
        }
        None => {
            if model != [0u8; 32] {
                return Err("harness: libsodium refused a point whose X25519 output is not zero".into());
            }
        }
    }
    let mut q = [0xa5u8; 32]; // the caller's output buffer is not zero on entry
    crypto_scalarmult(&mut q, &n, &p);
    if q != model {
        return Err(format!("crypto_scalarmult(n={}, p={}) = {} but X25519 (RFC 7748{}) = {}", hx(&n), hx(&p), hx(&q), if sod.is_some() { " and libsodium" } else { "" }, hx(&model)));
    }
    // base point
    let mut b = [0x5au8; 32];
    crypto_scalarmult_base(&mut b, &n);
    let sb = sodium::scalarmult_base(&n);
    let mut nine = [0u8; 32];
    nine[0] = 9;
    if sb != models::x25519(&n, &nine) {
        return Err("harness: libsodium scalarmult_base != model".into());
    }
    if b != sb {
        return Err(format!("crypto_scalarmult_base({}) = {} expected {}", hx(&n), hx(&b), hx(&sb)));
    }
    // box precomputation: HSalsa20(0, X25519(sk, pk))
    let want_k = models::hsalsa20(&[0u8; 16], &model, None);
    let k = crypto_box_beforenm(&p, &n);
    if let Some(sk) = sodium::box_beforenm(&p, &n) {
        if sk != want_k {
            return Err("harness: libsodium beforenm != HSalsa20(X25519)".into());
        }
    }
    if k != want_k {
        return Err(format!("crypto_box_beforenm(pk={}, sk={}) = {} expected {}", hx(&p), hx(&n), hx(&k), hx(&want_k)));
    }
    let pc = PrecalcSecretKey::precalculate(&p, &n);
    let kp = KeyPair::<StackByteArray<32>, StackByteArray<32>>::from_slices(&b, &n).map_err(|e| format!("{e:?}"))?;
    let pc2 = kp.precalculate(&StackByteArray::<32>::from(p));
    if pc.as_slice() != want_k || pc2.as_slice() != want_k {
        return Err("PrecalcSecretKey::precalculate / KeyPair::precalculate differ from HSalsa20(X25519)".into());
    }
    // key exchange with `p` as the peer's public key and n as our secret key; our own public key is
    // first the honest one, then a value unrelated to the secret key
    check_kx(b, n, p, model == [0u8; 32], "honest")?;
    let mut other_pk = [0u8; 32];
    for i in 0..32 {
        other_pk[i] = p[31 - i] ^ n[i] ^ 0x5a;
    }
    check_kx(other_pk, n, p, model == [0u8; 32], "unrelated to the secret key")?;
    let (twist, sub, noncanon, highbit) = classify(&p);
    Ok(Info { twist, prime_subgroup: sub, noncanonical: noncanon, highbit, sodium_refused: sod.is_none() })
}

/// cheap differential used for the dense neighbourhoods of the special encodings: dryoc == libsodium
/// (libsodium's refusal == all-zero output); the bigint model is applied to every 16th case
pub fn check_light(n: &[u8; 32], p: &[u8; 32], with_model: bool) -> Result<(), String> {
    let mut q = [0xa5u8; 32];
    crypto_scalarmult(&mut q, n, p);
    let want = sodium::scalarmult(n, p).unwrap_or([0u8; 32]);
    if with_model && models::x25519(n, p) != want {
        return Err("harness: libsodium != RFC 7748 model".into());
    }
    if q != want {
        return Err(format!("crypto_scalarmult(n={}, p={}) = {} but libsodium / X25519 = {}", hx(n), hx(p), hx(&q), hx(&want)));
    }
    if let Some(k) = sodium::box_beforenm(p, n) {
        if crypto_box_beforenm(p, n) != k {
            return Err(format!("crypto_box_beforenm(pk={}, sk={}) differs from libsodium", hx(p), hx(n)));
        }
    }
    Ok(())
}

/// honest pair: DH commutes, client rx/tx == server tx/rx
pub fn check_honest(seed_a: &[u8; 32], seed_b: &[u8; 32]) -> Result<(), String> {
    let (apk, ask) = sodium::kx_seed_keypair(seed_a);
    let (bpk, bsk) = sodium::kx_seed_keypair(seed_b);
    let (mut q1, mut q2) = ([0u8; 32], [0u8; 32]);
    crypto_scalarmult(&mut q1, &ask, &bpk);
    crypto_scalarmult(&mut q2, &bsk, &apk);
    if q1 != q2 {
        return Err("Diffie-Hellman does not commute for an honest pair".into());
    }
    let (mut crx, mut ctx_, mut srx, mut stx) = ([0u8; 32], [0u8; 32], [0u8; 32], [0u8; 32]);
    crypto_kx_client_session_keys(&mut crx, &mut ctx_, &apk, &ask, &bpk).map_err(|e| format!("{e:?}"))?;
    crypto_kx_server_session_keys(&mut srx, &mut stx, &bpk, &bsk, &apk).map_err(|e| format!("{e:?}"))?;
    if crx != stx || ctx_ != srx {
        return Err("client rx/tx are not the server's tx/rx".into());
    }
    if crx == ctx_ {
        return Err("rx and tx session keys are equal".into());
    }
    let (rrx, rtx) = sodium::kx_client(&apk, &ask, &bpk).ok_or("harness: libsodium kx")?;
    if crx != rrx || ctx_ != rtx {
        return Err("honest kx keys differ from libsodium".into());
    }
    Ok(())
}

pub fn special_points() -> Vec<([u8; 32], String)> {
    let p = models::fp();
    let one = BigUint::one();
    let u8a = BigUint::parse_bytes(b"325606250916557431795983626356110631294008115727848805560023387167927233504", 10).unwrap();
    let u8b = BigUint::parse_bytes(b"39382357235489614581723060781553021112529911719440698176882885853963445705823", 10).unwrap();
    let two255 = &one << 255u32;
    let mut vals: Vec<(BigUint, String)> = vec![
        (BigUint::from(0u32), "u=0 (order 2)".into()),
        (one.clone(), "u=1 (order 4)".into()),
        (u8a, "order-8 point a".into()),
        (u8b, "order-8 point b".into()),
        (&p - &one, "u=p-1 (order 4)".into()),
        (p.clone(), "u=p (non-canonical 0)".into()),
        (&p + &one, "u=p+1 (non-canonical 1)".into()),
        (BigUint::from(2u32), "u=2".into()),
        (BigUint::from(9u32), "u=9 (base point)".into()),
        (&two255 - &one, "u=2^255-1 (non-canonical 18)".into()),
        (&p + BigUint::from(9u32), "u=p+9 (non-canonical base point)".into()),
        (&p + BigUint::from(2u32), "u=p+2".into()),
        (&p - BigUint::from(2u32), "u=p-2".into()),
    ];
    for k in 3u32..19 {
        vals.push((&p + BigUint::from(k), format!("u=p+{k} (non-canonical)")));
    }
    let mut out = vec![];
    for (v, name) in vals {
        let enc = models::to32(&v);
        out.push((enc, name.clone()));
        let mut hb = enc;
        hb[31] |= 0x80;
        out.push((hb, format!("{name}, bit 255 set")));
    }
    out
}

fn special_scalars(f: &mut Fill, n: usize) -> Vec<[u8; 32]> {
    let mut v: Vec<[u8; 32]> = vec![[0u8; 32], [0xff; 32]];
    let mut c = [0u8; 32];
    c[0] = 8;
    c[31] = 64;
    v.push(c); // already clamped minimum
    let mut c = [0xffu8; 32];
    c[0] = 0xf8;
    c[31] = 0x7f;
    v.push(c); // clamped maximum
    let mut c = [0u8; 32];
    c[0] = 7;
    c[31] = 0x80;
    v.push(c); // only the bits clamping removes
    for bit in [0usize, 1, 2, 3, 127, 252, 253, 254, 255] {
        let mut s = [0u8; 32];
        s[bit / 8] |= 1 << (bit % 8);
        v.push(s);
    }
    // the group order L and neighbours as scalars (reduction mod L would send these to ~0)
    let l = models::ed_l();
    for d in 0u32..3 {
        v.push(models::to32(&(&l + BigUint::from(d))));
        v.push(models::to32(&((&l * BigUint::from(8u32)) + BigUint::from(d * 8))));
    }
    while v.len() < n {
        v.push(f.arr());
    }
    v
}

/// nightly sub-run: the same key-agreement results through heap / locked containers
#[cfg(feature = "nightly")]
pub fn check_locked(c: &Case) -> Result<(), String> {
    use dryoc::protected::*;
    let n = a32(&c.scalar)?;
    let p = a32(&c.point)?;
    let de = |e: dryoc::Error| format!("{e:?}");
    let io = |e: std::io::Error| format!("{e:?}");
    let want_k = models::hsalsa20(&[0u8; 16], &models::x25519(&n, &p), None);
    let lp = HeapByteArray::<32>::from_slice_into_locked(&p).map_err(de)?;
    let ln = HeapByteArray::<32>::from_slice_into_readonly_locked(&n).map_err(de)?;
    let k1 = PrecalcSecretKey::precalculate_locked(&lp, &ln).map_err(io)?;
    let k2 = PrecalcSecretKey::precalculate_readonly_locked(&p, &n).map_err(io)?;
    if k1.as_slice() != want_k {
        return Err(format!("PrecalcSecretKey::precalculate_locked(pk={}, sk={}) = {} expected HSalsa20(X25519) = {}", hx(&p), hx(&n), hx(k1.as_slice()), hx(&want_k)));
    }
    if k2.as_slice() != want_k {
        return Err("PrecalcSecretKey::precalculate_readonly_locked differs from HSalsa20(X25519)".into());
    }
    // our own public key: honest in half of the cases, unrelated to the secret key in the others
    let mut my_pk = sodium::scalarmult_base(&n);
    if p[0] & 1 == 1 {
        for i in 0..32 {
            my_pk[i] = p[31 - i] ^ n[i] ^ 0x5a;
        }
    }
    let kp: KeyPair<Locked<HeapByteArray<32>>, Locked<HeapByteArray<32>>> = KeyPair { public_key: HeapByteArray::<32>::from_slice_into_locked(&my_pk).map_err(de)?, secret_key: HeapByteArray::<32>::from_slice_into_locked(&n).map_err(de)? };
    let k3 = kp.precalculate_locked(&p).map_err(io)?;
    if k3.as_slice() != want_k {
        return Err("KeyPair::precalculate_locked differs from HSalsa20(X25519)".into());
    }
    let refc = sodium::kx_client(&my_pk, &n, &p);
    let refs = sodium::kx_server(&my_pk, &n, &p);
    let oc: Result<Session<Locked<HeapByteArray<32>>>, _> = Session::new_client(&kp, &lp);
    let os: Result<Session<HeapByteArray<32>>, _> = Session::new_server(&kp, &lp);
    match (&oc, &refc) {
        (Ok(s), Some((rx, tx))) => {
            if s.rx_as_slice() != rx || s.tx_as_slice() != tx {
                return Err("locked kx::Session::new_client keys differ from libsodium".into());
            }
        }
        (Err(_), None) => {}
        _ => return Err("locked kx::Session::new_client accept/refuse differs from libsodium".into()),
    }
    match (&os, &refs) {
        (Ok(s), Some((rx, tx))) => {
            if s.rx_as_slice() != rx || s.tx_as_slice() != tx {
                return Err("heap kx::Session::new_server keys differ from libsodium".into());
            }
        }
        (Err(_), None) => {}
        _ => return Err("heap kx::Session::new_server accept/refuse differs from libsodium".into()),
    }
    Ok(())
}

#[cfg(feature = "nightly")]
fn run_nightly_part(ctx: &mut Ctx) -> Result<(), Violation> {
    let seed = ctx.seed;
    let mut f = ctx.fill("scalars-n");
    let scalars = special_scalars(&mut f, 24);
    let mut items: Vec<Case> = vec![];
    for (p, _) in &special_points() {
        for s in scalars.iter().take(12) {
            items.push(Case { scalar: Hex(s.to_vec()), point: Hex(p.to_vec()) });
        }
    }
    for i in 0..ctx.tier.pick(3000usize, 40_000) {
        let mut f = Fill::new(seed, &format!("C05:n:{i}"));
        items.push(Case { scalar: Hex(f.bytes(32)), point: Hex(f.bytes(32)) });
    }
    ctx.par_each(&items, |_, c, ev| {
        ev.eval(1);
        ev.class("locked/heap containers: precalculate_locked, precalculate_readonly_locked, KeyPair::precalculate_locked, Session");
        ev.nontrivial(fnv64(&[b"nightly", &c.scalar, &c.point]));
        ev.sample("nightly", || json!({"scalar": hx(&c.scalar), "point": hx(&c.point)}));
        check_locked(c).map_err(|m| Violation::new("C05", "x25519-locked", m, serde_json::to_value(c).unwrap()))
    })
}

/// one thread, one fixed order: every (special point, special scalar) pair and then every pair again in the
/// reverse order - results must not depend on what the same thread computed before (memoised state keyed too
/// coarsely shows up here: neighbouring entries share the point, and the scalar table has constant-fill and
/// single-bit values whose folds collide)
fn sequential_sweep(seed: u64, scalars: &[[u8; 32]], specials: &[([u8; 32], String)], ev: &mut Evidence) -> Result<(), Violation> {
        let mut extra_scalars: Vec<[u8; 32]> = scalars.iter().take(40).copied().collect();
        for b in [0x11u8, 0x22, 0x33, 0x80, 0x01] {
            extra_scalars.push([b; 32]);
        }
        let mut order: Vec<(usize, usize)> = vec![];
        for pi in 0..specials.len() {
            for si in 0..extra_scalars.len() {
                order.push((pi, si));
            }
        }
        let rev: Vec<(usize, usize)> = order.iter().rev().copied().collect();
        order.extend(rev);
        for (k, (pi, si)) in order.into_iter().enumerate() {
            ev.eval(1);
            ev.class("sequential same-thread sweep (history independence)");
            check_light(&extra_scalars[si], &specials[pi].0, k % 64 == 0).map_err(|m| Violation::new("C05", "x25519-sequence", format!("[sequential sweep, step {k}] {m}"), json!({"seed": seed, "step": k, "scalar": hx(&extra_scalars[si]), "point": hx(&specials[pi].0)})))?;
        }
    Ok(())
}

pub fn run(ctx: &mut Ctx) -> Result<(), Violation> {
    #[cfg(feature = "nightly")]
    if std::env::var("VERIF_PART").as_deref() == Ok("nightly") {
        ctx.rule = "nightly sub-run: special point table x scalars and random pairs through locked / read-only locked / heap containers (PrecalcSecretKey::precalculate_locked, precalculate_readonly_locked, KeyPair::precalculate_locked, kx::Session over Locked and Heap keys) against the RFC 7748 model and libsodium".into();
        return run_nightly_part(ctx);
    }
    ctx.rule = "Scalars: random, 0, 0xff.., clamped min/max, only-clamped-away bits, single bits, L, 8L and neighbours. Points: uniformly random 32-byte encodings (proptest), every single-byte replacement of every table entry (dense neighbourhoods; libsodium differential, model on every 16th), the complete table of low-order u (0, 1, both order-8 u, p-1), non-canonical aliases p..p+18 and 2^255-1, u=2, 9, p±2, each with bit 255 clear and set; RFC 7748 iterated vectors. Entry points: crypto_scalarmult, crypto_scalarmult_base, crypto_box_beforenm, PrecalcSecretKey/KeyPair::precalculate, crypto_kx_{client,server}_session_keys, kx::Session::new_client, KeyPair::kx_new_server_session. Oracle: RFC 7748 Montgomery ladder on BigUint for every input; libsodium wherever it returns 0 (and its refusals must coincide with an all-zero model output); beforenm == HSalsa20(0, X25519); kx keys == libsodium's and dryoc returns Err exactly when libsodium refuses (all-zero shared secret); honest pairs: DH commutes, client rx/tx == server tx/rx. Non-trivial: point outside the prime-order subgroup (twist or torsion component, decided by the model) or non-canonical / high-bit encoding; distinct = hash(scalar, point).".into();
    ctx.assumptions = vec!["RFC 7748 BigUint ladder pinned by the RFC §5.2 vectors at start-up".into()];
    let seed = ctx.seed;
    // special table x scalars
    let mut f = ctx.fill("scalars");
    let scalars = special_scalars(&mut f, ctx.tier.pick(96, 200));
    let specials = special_points();
    let mut items: Vec<(Case, String)> = vec![];
    for (p, name) in &specials {
        for s in &scalars {
            items.push((Case { scalar: Hex(s.to_vec()), point: Hex(p.to_vec()) }, name.clone()));
        }
    }
    // special scalars x random points
    for (i, s) in scalars.iter().enumerate() {
        for j in 0..ctx.tier.pick(4, 32) {
            let p: [u8; 32] = Fill::new(seed, &format!("C05:pt:{i}:{j}")).arr();
            items.push((Case { scalar: Hex(s.to_vec()), point: Hex(p.to_vec()) }, "random point, special scalar".into()));
        }
    }
    ctx.par_each(&items, |_, (c, name), ev| {
        ev.eval(1);
        let info = check(c).map_err(|m| Violation::new("C05", "x25519", m, serde_json::to_value(c).unwrap()))?;
        record(ev, c, &info, name);
        Ok(())
    })?;
    // dense neighbourhoods of the special encodings: every single-byte replacement (32 x 255) of each table
    // entry, so that a special-case path keyed on *part* of an encoding (a prefix compare, a masked compare,
    // a table lookup on some bytes) meets inputs that agree with the special value everywhere but one byte
    let nb_scalars: Vec<[u8; 32]> = (0..ctx.tier.pick(1usize, 4)).map(|i| Fill::new(seed, &format!("C05:nb:{i}")).arr()).collect();
    let nb_items: Vec<usize> = (0..specials.len()).collect();
    let specials_ref = &specials;
    let nb_scalars_ref = &nb_scalars;
    ctx.par_each(&nb_items, |_, &si, ev| {
        let (base, name) = &specials_ref[si];
        let mut k = 0u32;
        for pos in 0..32 {
            for val in 0..=255u8 {
                if val == base[pos] {
                    continue;
                }
                let mut p = *base;
                p[pos] = val;
                for n in nb_scalars_ref {
                    k += 1;
                    ev.eval(1);
                    ev.class("single-byte neighbour of a special encoding");
                    ev.nontrivial(fnv64(&[n, &p]));
                    ev.sample(&format!("neighbour-{}", si % 3), || json!({"scalar": hx(n), "point": hx(&p), "kind": format!("{name} with byte {pos} replaced by {val:#04x}")}));
                    check_light(n, &p, k % 16 == 0).map_err(|m| Violation::new("C05", "x25519-light", m, json!({"scalar": hx(n), "point": hx(&p)})))?;
                }
            }
        }
        Ok(())
    })?;
    sequential_sweep(seed, &scalars, &specials, &mut ctx.ev)?;
    // honest pairs
    let pairs: Vec<u64> = (0..ctx.tier.pick(20_000u64, 200_000)).collect();
    ctx.par_each(&pairs, |_, &i, ev| {
        let mut f = Fill::new(seed, &format!("C05:honest:{i}"));
        let (a, b): ([u8; 32], [u8; 32]) = (f.arr(), f.arr());
        ev.eval(1);
        ev.class("honest-pair-commutes-and-kx-mirror");
        check_honest(&a, &b).map_err(|m| Violation::new("C05", "honest", m, json!({"seed_a": hx(&a), "seed_b": hx(&b)})))
    })?;
    // random pairs with shrinking
    let n = ctx.tier.pick(48_000u32, 800_000);
    let shards: Vec<u64> = (0..ctx.threads as u64).collect();
    let per = n / ctx.threads.max(1) as u32 + 1;
    ctx.par_each(&shards, |_, &sh, ev| {
        let strat = (proptest::collection::vec(any::<u8>(), 32), proptest::collection::vec(any::<u8>(), 32)).prop_map(|(s, p)| Case { scalar: Hex(s), point: Hex(p) });
        run_prop("C05", "x25519", seed.wrapping_mul(7919).wrapping_add(sh), per, strat, ev, |c, ev| {
            ev.eval(1);
            let info = check(c)?;
            record(ev, c, &info, "random");
            Ok(())
        })
    })?;
    // RFC 7748 §5.2 iterated vectors through dryoc
    let iters = ctx.tier.pick(20_000usize, 1_000_000);
    let mut k = [0u8; 32];
    k[0] = 9;
    let mut u = k;
    for i in 1..=iters {
        let mut out = [0u8; 32];
        crypto_scalarmult(&mut out, &k, &u);
        u = k;
        k = out;
        let expect = match i {
            1 => Some("422c8e7a6227d7bca1350b3e2bb7279f7897b87bb6854b783c60e80311ae3079"),
            1000 => Some("684cf59ba83309552800ef566f2f4d3c1c3887c49360e3875f2eb94d99532c51"),
            1_000_000 => Some("7c3911e0ab2586fd864497297e575e6f3bc601c0883c30df5f4dd2d24f665424"),
            _ => None,
        };
        if let Some(e) = expect {
            ctx.ev.eval(1);
            ctx.ev.class("rfc7748-iterated-vector");
            if hx(&k) != e {
                return Err(Violation::new("C05", "iterated", format!("RFC 7748 iterated vector after {i} iterations: got {} expected {e}", hx(&k)), json!({"iterations": i})));
            }
        }
    }
    Ok(())
}

fn record(ev: &mut Evidence, c: &Case, info: &Info, name: &str) {
    let cls = if info.twist {
        "point-on-twist"
    } else if !info.prime_subgroup {
        "point-on-curve-with-torsion-or-low-order"
    } else {
        "point-in-prime-order-subgroup"
    };
    ev.class(cls);
    if info.noncanonical {
        ev.class("non-canonical-encoding");
    }
    if info.highbit {
        ev.class("bit-255-set");
    }
    if info.sodium_refused {
        ev.class("libsodium-refuses(all-zero output)");
    }
    if !info.prime_subgroup || info.noncanonical || info.highbit {
        ev.nontrivial(fnv64(&[&c.scalar, &c.point]));
    }
    ev.sample(&format!("{cls}-{}", name.len() % 4), || json!({"scalar": hx(&c.scalar), "point": hx(&c.point), "kind": name}));
}

pub fn replay(v: &Violation) -> Result<(), String> {
    match v.kind.as_str() {
        "honest" => {
            let a: [u8; 32] = hex::decode(v.case["seed_a"].as_str().unwrap_or("")).map_err(|e| e.to_string())?.try_into().map_err(|_| "len")?;
            let b: [u8; 32] = hex::decode(v.case["seed_b"].as_str().unwrap_or("")).map_err(|e| e.to_string())?.try_into().map_err(|_| "len")?;
            check_honest(&a, &b)
        }
        "x25519-sequence" => {
            let seed = v.case["seed"].as_u64().unwrap_or(1);
            let mut f = Fill::new(seed, "C05:scalars");
            let scalars = special_scalars(&mut f, 96);
            sequential_sweep(seed, &scalars, &special_points(), &mut Evidence::default()).map_err(|v| v.message)
        }
        "iterated" => {
            let n = v.case["iterations"].as_u64().unwrap_or(1) as usize;
            let mut k = [0u8; 32];
            k[0] = 9;
            let mut u = k;
            for _ in 0..n {
                let mut out = [0u8; 32];
                crypto_scalarmult(&mut out, &k, &u);
                u = k;
                k = out;
            }
            let e = match n {
                1 => "422c8e7a6227d7bca1350b3e2bb7279f7897b87bb6854b783c60e80311ae3079",
                1000 => "684cf59ba83309552800ef566f2f4d3c1c3887c49360e3875f2eb94d99532c51",
                _ => "7c3911e0ab2586fd864497297e575e6f3bc601c0883c30df5f4dd2d24f665424",
            };
            if hx(&k) == e {
                Ok(())
            } else {
                Err("iterated vector mismatch".into())
            }
        }
        #[cfg(feature = "nightly")]
        "x25519-locked" => {
            let c: Case = from_case(&v.case)?;
            check_locked(&c)
        }
        _ => {
            let c: Case = from_case(&v.case)?;
            check(&c).map(|_| ())
        }
    }
}
