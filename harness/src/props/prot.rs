//! Shared driver for C14 / C15 / C19: canonical paths + proptest-random histories, each history in a
//! forked child of a single-threaded worker process (16 workers).
#![cfg(feature = "nightly")]
use crate::core::*;
use crate::protmodel::*;
use proptest::prelude::*;
use serde::{Deserialize, Serialize};
use serde_json::json;

#[derive(Debug, Clone, Copy, PartialEq, Eq, Serialize, Deserialize)]
pub enum Which {
    C14,
    C15,
    C19,
}

impl Which {
    pub fn id(self) -> &'static str {
        match self {
            Which::C14 => "C14",
            Which::C15 => "C15",
            Which::C19 => "C19",
        }
    }
}

fn op_strat(which: Which) -> impl Strategy<Value = Op> {
    let ctor = prop_oneof![
        3 => Just(Ctor::FromSliceLocked), 2 => Just(Ctor::FromSliceROLocked), 2 => Just(Ctor::NewLockedFill), 2 => Just(Ctor::PlainThenMlock),
        2 => Just(Ctor::Plain), 1 => Just(Ctor::StackMlock), 1 => Just(Ctor::StackReadOnly), 1 => Just(Ctor::GenLocked), 1 => Just(Ctor::GenROLocked),
    ];
    let hl = if which == Which::C15 { 2 } else { 1 };
    prop_oneof![
        4 => (ctor, 0usize..BYTES_LENGTHS.len()).prop_map(|(ctor, len_idx)| Op::New { ctor, len_idx }),
        3 => (0usize..3).prop_map(Op::Lock),
        3 => (0usize..3).prop_map(Op::Unlock),
        3 => (0usize..3).prop_map(Op::ReadOnly),
        3 => (0usize..3).prop_map(Op::ReadWrite),
        3 => (0usize..3).prop_map(Op::NoAccess),
        2 => (0usize..3).prop_map(Op::Clone),
        3 => (0usize..3, 0usize..BYTES_LENGTHS.len()).prop_map(|(r, l)| Op::Resize(r, l)),
        1 => (0usize..3, 0usize..9000, 1u8..=255).prop_map(|(r, p, v)| Op::Write(r, p, v)),
        2 => (0usize..3).prop_map(Op::Drop),
        hl => prop_oneof![8 => (0usize..10).prop_map(Op::HighLevel), 1 => (100usize..103).prop_map(Op::HighLevel)],
        2 => (0usize..4, 0usize..6).prop_map(|(s, l)| Op::Deserialize(s, l)),
        1 => (0usize..3).prop_map(Op::DropUnwinding),
        2 => (0usize..7).prop_map(Op::Wrapper),
    ]
}

pub fn history_strat(which: Which, depth: usize) -> impl Strategy<Value = History> {
    let kind = prop_oneof![
        5 => Just(None),
        5 => (0usize..LENGTHS.len()).prop_map(|i| Some(LENGTHS[i])),
    ];
    (kind, proptest::collection::vec(op_strat(which), 1..=depth), any::<u64>()).prop_map(|(array_len, ops, fill)| History { array_len, ops, fill })
}

pub fn canonical_paths() -> Vec<Vec<Op>> {
    use Op::*;
    let n = |ctor| New { ctor, len_idx: 0 };
    vec![
        vec![n(Ctor::FromSliceLocked), ReadOnly(0), ReadWrite(0), Unlock(0), NoAccess(0), ReadOnly(0), Lock(0), Unlock(0), ReadWrite(0), Drop(0)],
        vec![n(Ctor::FromSliceROLocked), Clone(0), Unlock(0), NoAccess(0), ReadWrite(0), Lock(0), ReadOnly(0), Drop(0), Drop(0)],
        vec![n(Ctor::Plain), Lock(0), Resize(0, 7), Write(0, 4096, 9), Resize(0, 2), Clone(0), Unlock(1), Resize(1, 8), Drop(0), Drop(0)],
        vec![n(Ctor::NewLockedFill), Unlock(0), NoAccess(0), Lock(0), ReadOnly(0), Unlock(0), ReadWrite(0), Drop(0)],
        vec![n(Ctor::PlainThenMlock), ReadOnly(0), Unlock(0), Clone(0), ReadWrite(0), NoAccess(0), ReadWrite(0), Write(0, 0, 7), Lock(0), Drop(0)],
        vec![n(Ctor::StackMlock), ReadOnly(0), Unlock(0), NoAccess(0), ReadWrite(0), Write(0, 1, 3), Lock(0), Drop(0)],
        vec![n(Ctor::StackReadOnly), Lock(0), ReadWrite(0), Write(0, 5000, 200), Unlock(0), Clone(0), NoAccess(0), Drop(1), Drop(0)],
        vec![n(Ctor::GenLocked), n(Ctor::GenROLocked), n(Ctor::FromSliceLocked), ReadOnly(2), Unlock(1), NoAccess(1), Drop(0), ReadWrite(2), Drop(1), Drop(0)],
        vec![n(Ctor::FromSliceLocked), Resize(0, 9), Resize(0, 1), Resize(0, 6), Clone(0), Resize(1, 0), Resize(0, 5), ReadOnly(0), Clone(0), Drop(0)],
        vec![n(Ctor::FromSliceLocked), Unlock(0), ReadOnly(0), NoAccess(0), Lock(0), ReadWrite(0), Unlock(0), Drop(0)],
        vec![n(Ctor::Plain), Clone(0), Resize(0, 8), Resize(0, 3), Lock(1), ReadOnly(1), Clone(1), Drop(1), Drop(0), Drop(0)],
        vec![n(Ctor::FromSliceROLocked), ReadOnly(0), Unlock(0), Unlock(0), ReadWrite(0), ReadWrite(0), NoAccess(0), NoAccess(0), ReadOnly(0), Lock(0), Drop(0)],
        // sizes around and beyond the allocator's mmap threshold (resizable container only)
        vec![n(Ctor::Plain), Resize(0, 10), Resize(0, 12), Resize(0, 3), Lock(0), Resize(0, 11), Clone(0), Resize(1, 1), Drop(0), Drop(0)],
        vec![n(Ctor::FromSliceLocked), Resize(0, 11), ReadOnly(0), Unlock(0), NoAccess(0), ReadWrite(0), Resize(0, 12), Resize(0, 10), Drop(0)],
    ]
}

#[derive(Serialize, Deserialize)]
pub struct WorkerReport {
    pub evidence: Evidence,
    pub violation: Option<Violation>,
    pub inconclusive: Option<String>,
}

fn nontrivial(which: Which, st: &RunStats) -> bool {
    match which {
        Which::C14 => (st.protect_transitions >= 1 && st.lock_transitions >= 1) || st.clone_or_resize_of_locked >= 1,
        Which::C15 => st.releases >= 2,
        Which::C19 => st.mlock_refused >= 1 && st.fault_reached_with_live_regions,
    }
}

/// Evaluate one history (all fault plans for C19). Err(message) = violation.
pub fn eval_history(which: Which, h: &History, ev: &mut Evidence) -> Result<(), String> {
    let modes: Vec<Mode> = match which {
        Which::C14 => vec![Mode::C14],
        Which::C15 => vec![Mode::C15],
        Which::C19 => {
            // fault-free run counts the lock calls; then one run per k
            let n = match run_in_child(h, Mode::C19 { refuse_from: 0, errno: 0 }) {
                Outcome::Pass(st) => st.mlock_calls,
                Outcome::Fail(m) => return Err(format!("[no fault injected] {m}")),
                Outcome::Inconclusive(m) => return Err(format!("INCONCLUSIVE {m}")),
            };
            // every k with ENOMEM; the other errno values mlock(2) documents at the first and the last lock call
            let last = n.min(12) as i64;
            let mut v: Vec<Mode> = (1..=last + 1).map(|k| Mode::C19 { refuse_from: k, errno: libc::ENOMEM }).collect();
            for e in [libc::EAGAIN, libc::EPERM] {
                v.push(Mode::C19 { refuse_from: 1, errno: e });
                if last > 1 {
                    v.push(Mode::C19 { refuse_from: last, errno: e });
                }
            }
            v
        }
    };
    for mode in modes {
        ev.eval(1);
        match run_in_child(h, mode) {
            Outcome::Pass(st) => {
                for s in &st.states_reached {
                    ev.class(&format!("state:{s}"));
                }
                ev.class_n("steps", st.steps);
                ev.class_n("fault-probes", st.probes);
                ev.class_n("releases-observed", st.releases);
                ev.class_n("transitions-that-returned-Err", st.err_transitions);
                if let Mode::C19 { refuse_from, .. } = mode {
                    if st.mlock_refused == 0 {
                        ev.class("plan-beyond-history(trivial)");
                    } else {
                        ev.class(&format!("refused-from-call-{}", refuse_from.min(9)));
                    }
                }
                if nontrivial(which, &st) {
                    ev.nontrivial(fnv64(&[serde_json::to_string(h).unwrap().as_bytes(), format!("{mode:?}").as_bytes()]));
                }
            }
            Outcome::Fail(m) => return Err(format!("{m}{}", if let Mode::C19 { refuse_from, errno } = mode { format!(" [mlock refused from call {refuse_from} with errno {errno}]") } else { String::new() })),
            Outcome::Inconclusive(m) => return Err(format!("INCONCLUSIVE {m}")),
        }
    }
    Ok(())
}

/// worker process: `vcheck worker <C14|C15|C19> <shard> <nshards> <seed> <tier> <outfile>`
pub fn worker(args: &[String]) -> i32 {
    let which = match args.first().map(|s| s.as_str()) {
        Some("C14") => Which::C14,
        Some("C15") => Which::C15,
        Some("C19") => Which::C19,
        _ => return 2,
    };
    let shard: usize = args[1].parse().unwrap_or(0);
    let nshards: usize = args[2].parse().unwrap_or(1);
    let seed: u64 = args[3].parse().unwrap_or(1);
    let tier = if args[4] == "thorough" { Tier::Thorough } else { Tier::Quick };
    let out = &args[5];
    let mut ev = Evidence::new();
    let mut report = WorkerReport { evidence: Evidence::new(), violation: None, inconclusive: None };
    // canonical paths x lengths x containers, sharded round-robin
    let mut det: Vec<History> = vec![];
    for (pi, path) in canonical_paths().iter().enumerate() {
        for (li, &len) in LENGTHS.iter().enumerate() {
            for array in [false, true] {
                let ops: Vec<Op> = path
                    .iter()
                    .map(|o| match o {
                        Op::New { ctor, .. } => Op::New { ctor: *ctor, len_idx: li },
                        o => o.clone(),
                    })
                    .collect();
                det.push(History { array_len: if array { Some(len) } else { None }, ops, fill: seed ^ (pi as u64) << 8 ^ li as u64 });
            }
        }
    }
    if which == Which::C19 {
        for sel in 0..7usize {
            det.push(History { array_len: None, ops: vec![Op::New { ctor: Ctor::FromSliceLocked, len_idx: 3 }, Op::Wrapper(sel), Op::Wrapper(sel + 2), Op::ReadOnly(0), Op::Drop(0)], fill: seed ^ (sel as u64) << 3 });
        }
        for sel in 0..4usize {
            for li in 0..6usize {
                det.push(History { array_len: None, ops: vec![Op::New { ctor: Ctor::FromSliceLocked, len_idx: 3 }, Op::Deserialize(sel, li), Op::Deserialize(sel + 1, li), Op::Drop(0)], fill: seed ^ (sel * 7 + li) as u64 });
            }
        }
    }
    if which == Which::C15 {
        // spare capacity left by a shrinking resize, then released while a panic unwinds
        for (a, b) in [(7usize, 2usize), (9, 4), (12, 1), (8, 6)] {
            for ctor in [Ctor::Plain, Ctor::FromSliceLocked] {
                det.push(History { array_len: None, ops: vec![Op::New { ctor, len_idx: a }, Op::Resize(0, a), Op::Resize(0, b), Op::DropUnwinding(0)], fill: seed ^ (a * 13 + b) as u64 });
            }
        }
        for k in 0..10 {
            det.push(History { array_len: None, ops: vec![Op::HighLevel(k), Op::HighLevel(k + 3)], fill: seed ^ k as u64 });
        }
        // many containers alive at once
        for k in 100..103 {
            det.push(History { array_len: None, ops: vec![Op::HighLevel(k)], fill: seed ^ k as u64 });
        }
    }
    if which == Which::C19 {
        // a long run of refused constructors in ONE process (per-process / per-thread state accumulated by the
        // failure path shows up only after hundreds of refusals)
        for ctor in [Ctor::FromSliceLocked, Ctor::GenROLocked] {
            det.push(History { array_len: None, ops: (0..420).map(|i| Op::New { ctor, len_idx: 1 + i % 4 }).collect(), fill: seed ^ 0x5707 });
        }
    }
    let mut res: Result<(), Violation> = Ok(());
    for (i, h) in det.iter().enumerate() {
        if i % nshards != shard {
            continue;
        }
        ev.class("canonical-path");
        if let Err(m) = eval_history(which, h, &mut ev) {
            res = Err(Violation::new(which.id(), "protected-history", m, serde_json::to_value(h).unwrap()));
            break;
        }
        if ev.samples.len() < 2 {
            ev.samples.push(json!({"array_len": h.array_len, "ops": h.ops.iter().map(|o| format!("{o:?}")).collect::<Vec<_>>()}));
        }
    }
    if res.is_ok() {
        let (total, depth) = match (which, tier) {
            (Which::C14, Tier::Quick) => (16_000usize, 12usize),
            (Which::C14, Tier::Thorough) => (700_000, 16),
            (Which::C15, Tier::Quick) => (40_000, 12),
            (Which::C15, Tier::Thorough) => (2_000_000, 20),
            (Which::C19, Tier::Quick) => (6000, 10),
            (Which::C19, Tier::Thorough) => (300_000, 12),
        };
        let per = (total / nshards).max(1) as u32;
        res = run_prop(which.id(), "protected-history", seed.wrapping_mul(31337).wrapping_add(shard as u64), per, history_strat(which, depth), &mut ev, |h, ev| {
            ev.class("random-history");
            ev.class(if h.array_len.is_some() { "container:HeapByteArray<N>" } else { "container:HeapBytes" });
            if ev.samples.len() < 4 {
                ev.samples.push(json!({"array_len": h.array_len, "ops": h.ops.iter().map(|o| format!("{o:?}")).collect::<Vec<_>>()}));
            }
            eval_history(which, h, ev)
        });
    }
    if let Err(v) = res {
        if v.message.starts_with("INCONCLUSIVE") {
            report.inconclusive = Some(v.message.clone());
        } else {
            report.violation = Some(v);
        }
    }
    report.evidence = ev;
    std::fs::write(out, serde_json::to_string(&report).unwrap()).ok();
    0
}

pub fn run(ctx: &mut Ctx, which: Which) -> Result<(), Violation> {
    let exe = std::env::current_exe().expect("current_exe");
    let nshards = ctx.threads.max(1);
    let dir = format!("/verif/target/tmp-{}-{}", which.id(), std::process::id());
    std::fs::create_dir_all(&dir).ok();
    let mut children = vec![];
    for s in 0..nshards {
        let out = format!("{dir}/shard{s}.json");
        let ch = std::process::Command::new(&exe)
            .args(["worker", which.id(), &s.to_string(), &nshards.to_string(), &ctx.seed.to_string(), ctx.tier.name(), &out])
            .spawn()
            .expect("spawn worker");
        children.push((ch, out));
    }
    let mut first: Option<Violation> = None;
    let mut inconclusive: Option<String> = None;
    for (mut ch, out) in children {
        let st = ch.wait().expect("wait worker");
        let rep: Option<WorkerReport> = std::fs::read_to_string(&out).ok().and_then(|s| serde_json::from_str(&s).ok());
        match rep {
            Some(r) => {
                ctx.ev.merge(r.evidence);
                if let Some(v) = r.violation {
                    if first.is_none() {
                        first = Some(v);
                    }
                }
                if let Some(m) = r.inconclusive {
                    inconclusive = Some(m);
                }
            }
            None => inconclusive = Some(format!("worker exited with {st:?} without a report")),
        }
    }
    std::fs::remove_dir_all(&dir).ok();
    if let Some(v) = first {
        return Err(v);
    }
    if let Some(m) = inconclusive {
        eprintln!("INCONCLUSIVE: {m}");
        std::process::exit(2);
    }
    Ok(())
}

pub fn replay(v: &Violation, which: Which) -> Result<(), String> {
    let h: History = from_case(&v.case)?;
    let mut ev = Evidence::new();
    eval_history(which, &h, &mut ev)
}
