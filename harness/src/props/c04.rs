//! C04 — opening, verifying and parsing functions are total on untrusted bytes.
use crate::aead::{self, Kind, Material, Opener};
use crate::alloc_track::tracked;
use crate::core::*;
use crate::sodium;
use base64::Engine as _;
use proptest::prelude::*;
use serde::{Deserialize, Serialize};
use serde_json::json;

#[derive(Debug, Clone, Copy, PartialEq, Eq, Serialize, Deserialize)]
pub enum Entry {
    Aead(Opener),
    SignOpen,
    SignVerifyDetached,
    SignFinalVerify,
    SignedMessageVerify,
    AuthVerify,
    AuthObjVerify,
    OtaVerify,
    OtaObjVerify,
    PwStrVerify,
    PwNeedsRehash,
    PwFromStringVerify,
    /// nightly build only: the same parsers / openers with heap and locked containers
    HeapBoxFromBytes,
    HeapSecretBoxFromBytes,
    HeapSealedUnseal,
    StreamPullLocked,
    StreamPullHeap,
    HeapSignedMessage,
    /// `DryocBox::from_bytes(..)` (no ephemeral key) followed by `unseal`: must be Err, never a panic
    BoxFromBytesThenUnseal,
}

pub const NIGHTLY_ENTRIES: &[Entry] = &[Entry::HeapBoxFromBytes, Entry::HeapSecretBoxFromBytes, Entry::HeapSealedUnseal, Entry::StreamPullLocked, Entry::StreamPullHeap, Entry::HeapSignedMessage];

pub const AEAD_ENTRIES: &[Opener] = &[
    Opener::SbOpenEasy,
    Opener::SbOpenEasyInplace,
    Opener::SbObjFromBytes,
    Opener::SbObjArrayMac,
    Opener::BoxOpenEasy,
    Opener::BoxOpenEasyInplace,
    Opener::BoxObjFromBytes,
    Opener::PcObjPrecalcDecrypt,
    Opener::PcSbOpenEasy,
    Opener::SealOpen,
    Opener::SealObjUnseal,
    Opener::StreamPull,
    Opener::StreamObjPull,
];

impl Entry {
    pub fn name(self) -> String {
        match self {
            Entry::Aead(o) => o.name(),
            e => format!("{e:?}"),
        }
    }
    pub fn overhead(self) -> usize {
        match self {
            Entry::Aead(o) => match o.kind() {
                Kind::Sealed => 48,
                Kind::Stream => 17,
                _ => 16,
            },
            Entry::SignOpen | Entry::SignVerifyDetached | Entry::SignFinalVerify | Entry::SignedMessageVerify | Entry::HeapSignedMessage => 64,
            Entry::HeapBoxFromBytes | Entry::HeapSecretBoxFromBytes | Entry::BoxFromBytesThenUnseal => 16,
            Entry::HeapSealedUnseal => 48,
            Entry::StreamPullLocked | Entry::StreamPullHeap => 17,
            Entry::AuthVerify | Entry::AuthObjVerify => 32,
            Entry::OtaVerify | Entry::OtaObjVerify => 16,
            _ => 0,
        }
    }
    pub fn is_pw(self) -> bool {
        matches!(self, Entry::PwStrVerify | Entry::PwNeedsRehash | Entry::PwFromStringVerify)
    }
}

#[derive(Debug, Clone, Serialize, Deserialize)]
pub struct Case {
    pub entry: Entry,
    pub keyseed: u64,
    /// untrusted input (password-hash entries: the UTF-8 bytes of the string)
    pub input: Hex,
    pub class: String,
    /// stream: associated data presented with the pull
    pub ad: Option<Hex>,
}

pub struct Keys {
    pub key: [u8; 32],
    pub nonce: [u8; 24],
    pub spk: [u8; 32],
    pub ssk: [u8; 32],
    pub rpk: [u8; 32],
    pub rsk: [u8; 32],
    pub header: [u8; 24],
    pub sign_pk: [u8; 32],
    pub sign_sk: [u8; 64],
    pub password: Vec<u8>,
}

pub fn keys(seed: u64) -> Keys {
    let mut f = Fill::new(seed, "C04:keys");
    let key = f.arr();
    let nonce = f.arr();
    let (spk, ssk) = sodium::box_seed_keypair(&f.arr());
    let (rpk, rsk) = sodium::box_seed_keypair(&f.arr());
    let header = f.arr();
    let (sign_pk, sign_sk) = sodium::sign_seed_keypair(&f.arr());
    Keys { key, nonce, spk, ssk, rpk, rsk, header, sign_pk, sign_sk, password: b"correct horse".to_vec() }
}

/// an authentic wire message for `entry` carrying `msg`
pub fn authentic(entry: Entry, k: &Keys, msg: &[u8], stream_tag: u8) -> Vec<u8> {
    match entry {
        Entry::Aead(o) => match o.kind() {
            Kind::SecretBox => sodium::secretbox_easy(msg, &k.nonce, &k.key),
            Kind::Box => sodium::box_easy(msg, &k.nonce, &k.rpk, &k.ssk).unwrap(),
            Kind::Precalc => sodium::box_easy_afternm(msg, &k.nonce, &sodium::box_beforenm(&k.spk, &k.rsk).unwrap()),
            Kind::Sealed => sodium::box_seal(msg, &k.rpk),
            Kind::Stream => {
                let mut st = sodium::stream_init_pull(&k.header, &k.key);
                sodium::stream_push(&mut st, msg, None, stream_tag)
            }
        },
        Entry::HeapBoxFromBytes | Entry::BoxFromBytesThenUnseal => sodium::box_easy(msg, &k.nonce, &k.rpk, &k.ssk).unwrap(),
        Entry::HeapSecretBoxFromBytes => sodium::secretbox_easy(msg, &k.nonce, &k.key),
        Entry::HeapSealedUnseal => sodium::box_seal(msg, &k.rpk),
        Entry::StreamPullLocked | Entry::StreamPullHeap => {
            let mut st = sodium::stream_init_pull(&k.header, &k.key);
            sodium::stream_push(&mut st, msg, None, stream_tag)
        }
        Entry::SignOpen | Entry::SignVerifyDetached | Entry::SignedMessageVerify | Entry::HeapSignedMessage => sodium::sign_combined(msg, &k.sign_sk),
        Entry::SignFinalVerify => {
            let mut v = sodium::sign_ph_create(&[msg], &k.sign_sk).to_vec();
            v.extend_from_slice(msg);
            v
        }
        Entry::AuthVerify | Entry::AuthObjVerify => {
            let mut v = sodium::auth(msg, &k.key).to_vec();
            v.extend_from_slice(msg);
            v
        }
        Entry::OtaVerify | Entry::OtaObjVerify => {
            let mut v = sodium::onetimeauth(msg, &k.key).to_vec();
            v.extend_from_slice(msg);
            v
        }
        _ => vec![],
    }
}

/// Call the entry point. Returns Some(accepted?) — the verdict is irrelevant to C04, only totality is.
fn call(c: &Case) -> Option<bool> {
    let k = keys(c.keyseed);
    let inp = &c.input.0;
    match c.entry {
        Entry::Aead(op) => {
            let (key, pk, sk) = match op.kind() {
                Kind::Precalc => (sodium::box_beforenm(&k.spk, &k.rsk).unwrap(), k.spk, k.rsk),
                Kind::Sealed => (k.key, k.rpk, k.rsk),
                _ => (k.key, k.spk, k.rsk),
            };
            let m = Material {
                kind: op.kind(),
                key: Hex(key.to_vec()),
                nonce: Hex(k.nonce.to_vec()),
                pk: Hex(pk.to_vec()),
                sk: Hex(sk.to_vec()),
                epk: Hex(vec![]),
                tag: Hex(vec![]),
                ct: Hex(if op.kind() == Kind::Stream { inp.clone() } else { vec![] }),
                header: Hex(k.header.to_vec()),
                ad: c.ad.clone(),
                prior: vec![],
                short_wire: if op.kind() == Kind::Stream { None } else { Some(Hex(inp.clone())) },
                msg: Hex(vec![]),
                stream_tag: 0,
            };
            aead::open(op, &m).map(|o| o.result.is_ok())
        }
        Entry::SignOpen => {
            let mut m = vec![0u8; inp.len().saturating_sub(64)];
            Some(dryoc::classic::crypto_sign::crypto_sign_open(&mut m, inp, &k.sign_pk).is_ok())
        }
        Entry::SignVerifyDetached => {
            if inp.len() < 64 {
                return None; // the typed API cannot be called with a shorter signature
            }
            let sig: [u8; 64] = inp[..64].try_into().unwrap();
            Some(dryoc::classic::crypto_sign::crypto_sign_verify_detached(&sig, &inp[64..], &k.sign_pk).is_ok())
        }
        Entry::SignFinalVerify => {
            if inp.len() < 64 {
                return None;
            }
            let sig: [u8; 64] = inp[..64].try_into().unwrap();
            use dryoc::classic::crypto_sign::*;
            let mut st = crypto_sign_init();
            crypto_sign_update(&mut st, &inp[64..]);
            let a = crypto_sign_final_verify(st, &sig, &k.sign_pk).is_ok();
            let mut s = dryoc::sign::IncrementalSigner::new();
            s.update(&inp[64..].to_vec());
            let b = s.verify(&sig, &k.sign_pk).is_ok();
            Some(a && b)
        }
        Entry::SignedMessageVerify => {
            use dryoc::sign::SignedMessage;
            use dryoc::types::StackByteArray;
            let r = SignedMessage::<StackByteArray<64>, Vec<u8>>::from_bytes(inp).and_then(|sm| sm.verify(&k.sign_pk));
            let r2 = SignedMessage::<[u8; 64], Vec<u8>>::from_bytes(inp).and_then(|sm| sm.verify(&k.sign_pk.to_vec()));
            Some(r.is_ok() && r2.is_ok())
        }
        Entry::AuthVerify => {
            if inp.len() < 32 {
                return None;
            }
            let mac: [u8; 32] = inp[..32].try_into().unwrap();
            Some(dryoc::classic::crypto_auth::crypto_auth_verify(&mac, &inp[32..], &k.key).is_ok())
        }
        Entry::AuthObjVerify => {
            if inp.len() < 32 {
                return None;
            }
            let mac: [u8; 32] = inp[..32].try_into().unwrap();
            let a = dryoc::auth::Auth::compute_and_verify(&mac, k.key, &inp[32..].to_vec()).is_ok();
            let mut s = dryoc::auth::Auth::new(k.key);
            s.update(&inp[32..].to_vec());
            Some(a && s.verify(&mac.to_vec()).is_ok())
        }
        Entry::OtaVerify => {
            if inp.len() < 16 {
                return None;
            }
            let mac: [u8; 16] = inp[..16].try_into().unwrap();
            Some(dryoc::classic::crypto_onetimeauth::crypto_onetimeauth_verify(&mac, &inp[16..], &k.key).is_ok())
        }
        Entry::OtaObjVerify => {
            if inp.len() < 16 {
                return None;
            }
            let mac: [u8; 16] = inp[..16].try_into().unwrap();
            let a = dryoc::onetimeauth::OnetimeAuth::compute_and_verify(&mac, k.key, &inp[16..].to_vec()).is_ok();
            let mut s = dryoc::onetimeauth::OnetimeAuth::new(k.key);
            s.update(&inp[16..].to_vec());
            Some(a && s.verify(&mac.to_vec()).is_ok())
        }
        Entry::BoxFromBytesThenUnseal => {
            use dryoc::dryocbox::DryocBox;
            use dryoc::types::StackByteArray;
            let kp = dryoc::keypair::KeyPair::<StackByteArray<32>, StackByteArray<32>>::from_slices(&k.rpk, &k.rsk).ok()?;
            let r = DryocBox::<StackByteArray<32>, StackByteArray<16>, Vec<u8>>::from_bytes(inp).and_then(|b| b.unseal_to_vec(&kp));
            let r2 = serde_json::from_value::<DryocBox<StackByteArray<32>, StackByteArray<16>, Vec<u8>>>(serde_json::json!({"ephemeral_pk": null, "tag": inp.iter().take(16).collect::<Vec<_>>(), "data": inp.iter().skip(16).collect::<Vec<_>>()})).ok().map(|b| b.unseal_to_vec(&kp).is_ok());
            Some(r.is_ok() || r2 == Some(true))
        }
        Entry::PwStrVerify => {
            let s = std::str::from_utf8(inp).ok()?;
            Some(dryoc::classic::crypto_pwhash::crypto_pwhash_str_verify(s, &k.password).is_ok())
        }
        Entry::PwNeedsRehash => {
            let s = std::str::from_utf8(inp).ok()?;
            let a = dryoc::classic::crypto_pwhash::crypto_pwhash_str_needs_rehash(s, 2, 16 * 1024);
            let b = dryoc::classic::crypto_pwhash::crypto_pwhash_str_needs_rehash(s, u64::MAX, usize::MAX);
            Some(a.is_ok() && b.is_ok())
        }
        #[cfg(feature = "nightly")]
        Entry::HeapBoxFromBytes | Entry::HeapSecretBoxFromBytes | Entry::HeapSealedUnseal | Entry::StreamPullLocked | Entry::StreamPullHeap | Entry::HeapSignedMessage => call_nightly(c, &k),
        #[cfg(not(feature = "nightly"))]
        Entry::HeapBoxFromBytes | Entry::HeapSecretBoxFromBytes | Entry::HeapSealedUnseal | Entry::StreamPullLocked | Entry::StreamPullHeap | Entry::HeapSignedMessage => None,
        Entry::PwFromStringVerify => {
            let s = std::str::from_utf8(inp).ok()?;
            let p = dryoc::pwhash::PwHash::<Vec<u8>, Vec<u8>>::from_string(s);
            match p {
                Err(_) => Some(false),
                Ok(p) => {
                    let _ = p.to_string();
                    if !pw_cost_bounded(s) {
                        return Some(false); // parsing and re-encoding only: Argon2 is never run on unbounded costs
                    }
                    Some(p.verify(&k.password).is_ok())
                }
            }
        }
    }
}

#[cfg(feature = "nightly")]
fn call_nightly(c: &Case, k: &Keys) -> Option<bool> {
    use dryoc::dryocbox::DryocBox;
    use dryoc::dryocsecretbox::DryocSecretBox;
    use dryoc::dryocstream::DryocStream;
    use dryoc::protected::*;
    let inp = &c.input.0;
    match c.entry {
        Entry::HeapBoxFromBytes => {
            let r = DryocBox::<HeapByteArray<32>, HeapByteArray<16>, HeapBytes>::from_bytes(inp).and_then(|b| {
                let pt: Result<LockedBytes, _> = b.decrypt(&k.nonce, &k.spk, &k.rsk);
                pt
            });
            Some(r.is_ok())
        }
        Entry::HeapSecretBoxFromBytes => {
            let r = DryocSecretBox::<HeapByteArray<16>, HeapBytes>::from_bytes(inp).and_then(|b| {
                let pt: Result<HeapBytes, _> = b.decrypt(&k.nonce, &k.key);
                pt
            });
            Some(r.is_ok())
        }
        Entry::HeapSealedUnseal => {
            let kp: dryoc::keypair::KeyPair<HeapByteArray<32>, HeapByteArray<32>> = dryoc::keypair::KeyPair { public_key: HeapByteArray::from(&k.rpk), secret_key: HeapByteArray::from(&k.rsk) };
            let r = DryocBox::<HeapByteArray<32>, HeapByteArray<16>, HeapBytes>::from_sealed_bytes(inp).and_then(|b| {
                let pt: Result<LockedBytes, _> = b.unseal(&kp);
                pt
            });
            Some(r.is_ok())
        }
        Entry::StreamPullLocked => {
            let mut s = DryocStream::init_pull(&k.key, &k.header);
            let ad = c.ad.as_ref().map(|h| h.0.clone());
            let r: Result<(LockedBytes, _), _> = s.pull(inp, ad.as_ref());
            Some(r.is_ok())
        }
        Entry::StreamPullHeap => {
            let mut s = DryocStream::init_pull(&k.key, &k.header);
            let hb = {
                let mut h = HeapBytes::default();
                h.resize(inp.len(), 0);
                h.as_mut_slice().copy_from_slice(inp);
                h
            };
            let r: Result<(HeapBytes, _), _> = s.pull(&hb, None);
            Some(r.is_ok())
        }
        Entry::HeapSignedMessage => {
            let r = dryoc::sign::SignedMessage::<HeapByteArray<64>, HeapBytes>::from_bytes(inp).and_then(|m| m.verify(&k.sign_pk));
            Some(r.is_ok())
        }
        _ => None,
    }
}

/// May this password-hash string be passed to a function that runs Argon2? Every `m=`/`t=` number
/// found anywhere in the string must be small (the property bounds cost parameters).
pub fn pw_cost_bounded(s: &str) -> bool {
    for (pat, lim) in [("m=", 64u128), ("t=", 3u128)] {
        let mut rest = s;
        while let Some(i) = rest.find(pat) {
            let digits: String = rest[i + 2..].chars().take_while(|c| c.is_ascii_digit()).collect();
            if digits.len() > 12 || digits.parse::<u128>().map_or(false, |v| v > lim) {
                return false;
            }
            rest = &rest[i + 2..];
        }
    }
    true
}

pub fn exec(c: &Case) -> Result<Option<bool>, String> {
    if matches!(c.entry, Entry::PwStrVerify) {
        if let Ok(s) = std::str::from_utf8(&c.input) {
            if !pw_cost_bounded(s) {
                return Ok(None);
            }
        }
    }
    let js = serde_json::to_string(&Violation::new("C04", "untrusted-input", "absurd allocation request", serde_json::to_value(c).unwrap())).unwrap();
    let (r, max_alloc) = tracked(&js, || no_panic(|| call(c)));
    let r = r.map_err(|p| format!("{}: panicked on {}-byte untrusted input (class {}): {p} at {}", c.entry.name(), c.input.len(), c.class, last_panic_loc()))?;
    let bound = 4 * c.input.len() + (1 << 20) + if c.entry.is_pw() { 4 << 20 } else { 0 };
    if max_alloc > bound {
        return Err(format!("{}: single allocation of {max_alloc} bytes for a {}-byte input (bound {bound})", c.entry.name(), c.input.len()));
    }
    Ok(r)
}

fn b64(b: &[u8]) -> String {
    base64::engine::general_purpose::STANDARD_NO_PAD.encode(b)
}

/// grammar-based password-hash strings (structure first; shrinks towards the simplest alternatives)
pub fn pw_string_strat() -> impl Strategy<Value = String> {
    let alg = prop_oneof![4 => Just("argon2id"), 3 => Just("argon2i"), 1 => Just("argon2d"), 1 => Just("argon2x"), 1 => Just("argon2"), 1 => Just(""), 1 => Just("ARGON2ID"), 1 => Just("argon2id$argon2i")]
        .prop_map(|s| s.to_string());
    let ver = prop_oneof![6 => Just("v=19"), 1 => Just("v=16"), 1 => Just("v="), 1 => Just("v=-1"), 1 => Just("v=4294967296"), 1 => Just("v=19x"), 1 => Just(""), 1 => Just("v=0x13"), 1 => Just("v=019"), 1 => Just("v=19$v=19")]
        .prop_map(|s| s.to_string());
    let num = |good: Vec<&'static str>| {
        let good: Vec<String> = good.into_iter().map(|s| s.to_string()).collect();
        prop_oneof![
            6 => proptest::sample::select(good),
            1 => Just("".to_string()), 1 => Just("-1".to_string()), 1 => Just("0".to_string()),
            1 => Just("4294967295".to_string()), 1 => Just("4294967296".to_string()),
            1 => Just("99999999999999999999999".to_string()), 1 => Just("8.5".to_string()), 1 => Just("+8".to_string()),
            1 => Just(" 8".to_string()), 1 => Just("1e3".to_string()), 1 => Just("٣".to_string()),
        ]
    };
    let params = (num(vec!["8", "9", "16", "31", "64", "7", "1"]), num(vec!["1", "2", "3"]), num(vec!["1", "1", "1", "2", "0"]), 0usize..10)
        .prop_map(|(m, t, p, shape)| match shape {
            0..=3 => format!("m={m},t={t},p={p}"),
            4 => format!("t={t},m={m},p={p}"),
            5 => format!("m={m},t={t}"),
            6 => format!("m={m},t={t},p={p},m={m}"),
            7 => format!("m={m},,t={t},p={p},"),
            8 => format!("m={m};t={t};p={p}"),
            _ => format!("p={p},m={m},t={t},x=1"),
        });
    let blob = |lens: Vec<usize>| {
        (proptest::sample::select(lens), any::<u64>(), 0usize..12).prop_map(|(n, seed, shape)| {
            let bytes = Fill::new(seed, "pw").bytes(n);
            let s = b64(&bytes);
            match shape {
                0..=6 => s,
                7 => format!("{s}="),
                8 => format!("{}!{}", &s[..s.len() / 2], &s[s.len() / 2..]),
                9 => String::new(),
                10 => s.replace(['A', 'a'], "-"),
                _ => format!("{s} "),
            }
        })
    };
    (alg, ver, params, blob(vec![16, 8, 7, 1, 0, 32, 64, 24]), blob(vec![32, 32, 32, 16, 64, 31, 33, 1, 0, 128]), 0usize..12).prop_map(|(alg, ver, params, salt, hash, shape)| match shape {
        0..=5 => format!("${alg}${ver}${params}${salt}${hash}"),
        6 => format!("{alg}${ver}${params}${salt}${hash}$"),
        7 => format!("${alg}${params}${ver}${hash}"),
        8 => format!("$$${alg}$${ver}${params}${salt}${hash}$$extra"),
        9 => format!("${alg}${ver}${params}${salt}"),
        10 => format!("${ver}${params}${salt}${hash}${alg}"),
        _ => format!("${alg}${ver}${params}${salt}${hash}${hash}${salt}"),
    })
}

/// boundary values for 32-byte fields (scalars mod L, field elements mod p, point encodings)
fn special_32() -> Vec<(String, [u8; 32])> {
    use num_bigint::BigUint;
    use num_traits::One;
    let l = crate::models::ed_l();
    let p = crate::models::fp();
    let one = BigUint::one();
    let mut v: Vec<(String, BigUint)> = vec![
        ("0".into(), BigUint::from(0u32)),
        ("1".into(), one.clone()),
        ("L".into(), l.clone()),
        ("L-1".into(), &l - &one),
        ("L+1".into(), &l + &one),
        ("2L".into(), &l * 2u32),
        ("8L".into(), &l * 8u32),
        ("p".into(), p.clone()),
        ("p-1".into(), &p - &one),
        ("p+1".into(), &p + &one),
        ("2^255-1".into(), (&one << 255u32) - &one),
        ("2^255".into(), &one << 255u32),
        ("2^256-1".into(), (&one << 256u32) - &one),
    ];
    for k in [252u32, 253, 254] {
        v.push((format!("2^{k}"), &one << k));
        v.push((format!("2^{k}-1"), (&one << k) - &one));
    }
    let mut out: Vec<(String, [u8; 32])> = v.into_iter().map(|(n, x)| (n, crate::models::to32(&x))).collect();
    // the order-8 / order-4 Edwards y encodings (with and without the sign bit)
    for (n, hexs) in [
        ("ed-order8-a", "26e8958fc2b227b045c3f489f2ef98f0d5dfac05d3c63339b13802886d53fc05"),
        ("ed-order8-b", "c7176a703d4dd84fba3c0b760d10670f2a2053fa2c39ccc64ec7fd7792ac037a"),
        ("ed-order4", "0000000000000000000000000000000000000000000000000000000000000080"),
    ] {
        let b: [u8; 32] = hex::decode(hexs).unwrap().try_into().unwrap();
        out.push((n.into(), b));
    }
    out
}

fn class_inputs(entry: Entry, len: usize, k: &Keys, f: &mut Fill) -> Vec<(String, Vec<u8>)> {
    let mut v: Vec<(String, Vec<u8>)> = vec![("zeros".into(), vec![0u8; len]), ("0xff".into(), vec![0xff; len]), ("random".into(), f.bytes(len))];
    let oh = entry.overhead();
    let tag = [0u8, 1, 2, 3][f.below(4) as usize];
    if len >= oh {
        let valid = authentic(entry, k, &f.bytes(len - oh), tag);
        if !valid.is_empty() || len == 0 {
            let mut m = valid.clone();
            if !m.is_empty() {
                let i = f.below(m.len() as u64) as usize;
                m[i] ^= 1 << f.below(8);
            }
            let mut g = valid.clone();
            let half = g.len() / 2;
            f.fill(&mut g[half..]);
            // fixed-size fields replaced by boundary values of the quantities they encode (group order, field
            // prime, powers of two and their neighbours, small-order encodings, constants)
            if valid.len() >= oh && matches!(oh, 16 | 32 | 64) && !matches!(entry, Entry::Aead(_)) {
                for (name, val) in special_32() {
                    for off in (0..oh).step_by(32.min(oh)) {
                        let mut x = valid.clone();
                        let w = 32.min(oh);
                        x[off..off + w].copy_from_slice(&val[..w]);
                        v.push((format!("valid-with-field@{off}={name}"), x));
                    }
                }
            }
            v.push(("valid".into(), valid));
            v.push(("valid-with-mutation".into(), m));
            v.push(("valid-prefix-then-garbage".into(), g));
        }
    }
    // a longer authentic message truncated to `len`
    let longer = authentic(entry, k, &f.bytes(len + 5), tag);
    if longer.len() >= len && !longer.is_empty() {
        v.push(("valid-truncated".into(), longer[..len].to_vec()));
    }
    v
}

pub fn run(ctx: &mut Ctx) -> Result<(), Violation> {
    ctx.rule = "Domain A (deterministic): for each attacker-facing entry (13 box/secretbox/sealed/precomputed/stream openers in classic and object form incl. from_bytes parsers, crypto_sign_open, crypto_sign_verify_detached, crypto_sign_final_verify + IncrementalSigner::verify, SignedMessage::from_bytes+verify, crypto_auth_verify, Auth::verify, crypto_onetimeauth_verify, OnetimeAuth::verify) EVERY input length 0..=200 x classes {zeros, 0xff, random, valid, valid-with-mutation, valid-with-a-fixed-size-field-set-to-a-boundary-value (0, 1, L, L±1, 2L, 8L, p, p±1, 2^252..2^256-1, small-order encodings; signature and MAC entries), valid-prefix-then-garbage, valid-truncated} x fills; caller buffers sized len-overhead saturating at 0; authentic stream messages with ALL 256 tag bytes (libsodium push) to both pulls, with and without AD. Password-hash strings: grammar-based proptest strings (algorithm/version/params/salt/hash fields with omission, duplication, reordering, empty fields, bad base64, huge/negative/non-ASCII integers), random printable and random UTF-8 strings, and every prefix / single-character deletion / replacement or insertion of a 2-, 3- and 4-byte UTF-8 character at every position of valid libsodium strings, to crypto_pwhash_str_verify, crypto_pwhash_str_needs_rehash and PwHash::from_string+to_string+verify; strings containing any m > 64 or t > 3 are not passed to Argon2-running entries (counted as excluded). Oracle: no panic (build has overflow checks on), per-thread largest single allocation <= 4*len + 1 MiB (+4 MiB for password entries), allocation >= 4 GiB stops the run as a violation. Non-trivial: input shorter than the fixed overhead, a mutated/truncated valid message, an authentic stream message with tag > 3, or a string that reaches a numeric field; distinct = (entry, length, class, fill).".into();
    ctx.assumptions = vec![
        "release build with overflow-checks = true so arithmetic overflow panics".into(),
        "cost parameters bounded (m <= 64 KiB, t <= 3) whenever a string can reach Argon2, as the property states".into(),
    ];
    let fills = ctx.tier.pick(6u64, 24);
    let n_len = 200usize;
    let nightly_part = cfg!(feature = "nightly") && std::env::var("VERIF_PART").as_deref() == Ok("nightly");
    if nightly_part {
        // heap / locked containers: same enumeration over the nightly-only entries, then done
        let mut items: Vec<(Entry, usize)> = vec![];
        for e in NIGHTLY_ENTRIES {
            for len in 0..=n_len {
                items.push((*e, len));
            }
        }
        let seed = ctx.seed;
        ctx.par_each(&items, |_, &(entry, len), ev| {
            for fi in 0..fills.min(4) {
                let keyseed = seed ^ (fi << 32) ^ 0x5a5a;
                let k = keys(keyseed);
                let mut f = Fill::new(seed, &format!("C04n:{}:{len}:{fi}", entry.name()));
                for (class, input) in class_inputs(entry, len, &k, &mut f) {
                    let c = Case { entry, keyseed, input: Hex(input.clone()), class: class.clone(), ad: None };
                    let r = exec(&c).map_err(|m| Violation::new("C04", "untrusted-input", m, serde_json::to_value(&c).unwrap()))?;
                    if r.is_none() {
                        continue;
                    }
                    ev.eval(1);
                    ev.class(&format!("{}:{}", entry.name(), class));
                    if class == "valid" && r != Some(true) {
                        return Err(Violation::new("C04", "harness", format!("harness: authentic input for {} not accepted", entry.name()), serde_json::to_value(&c).unwrap()));
                    }
                    if len < entry.overhead() || class.starts_with("valid-") {
                        ev.nontrivial(fnv64(&[entry.name().as_bytes(), &len.to_le_bytes(), class.as_bytes(), &fi.to_le_bytes()]));
                    }
                    if len == 3 {
                        ev.sample(&format!("{}-{}", entry.name(), class), || json!({"entry": entry.name(), "len": len, "class": class}));
                    }
                }
            }
            Ok(())
        })?;
        return Ok(());
    }
    let mut entries: Vec<Entry> = AEAD_ENTRIES.iter().map(|o| Entry::Aead(*o)).collect();
    entries.extend([
        Entry::SignOpen, Entry::SignVerifyDetached, Entry::SignFinalVerify, Entry::SignedMessageVerify, Entry::AuthVerify, Entry::AuthObjVerify,
        Entry::OtaVerify, Entry::OtaObjVerify, Entry::BoxFromBytesThenUnseal,
    ]);
    let mut items: Vec<(Entry, usize)> = vec![];
    for e in &entries {
        for len in 0..=n_len {
            items.push((*e, len));
        }
    }
    let seed = ctx.seed;
    ctx.par_each(&items, |_, &(entry, len), ev| {
        for fi in 0..fills {
            let keyseed = seed ^ (fi << 32) ^ 0x5a5a;
            let k = keys(keyseed);
            let mut f = Fill::new(seed, &format!("C04:{}:{len}:{fi}", entry.name()));
            for (class, input) in class_inputs(entry, len, &k, &mut f) {
                let ads: Vec<Option<Hex>> = if matches!(entry, Entry::Aead(o) if o.kind() == Kind::Stream) { vec![None, Some(Hex(f.bytes(len % 19)))] } else { vec![None] };
                for ad in ads {
                    let c = Case { entry, keyseed, input: Hex(input.clone()), class: class.clone(), ad };
                    let r = exec(&c).map_err(|m| Violation::new("C04", "untrusted-input", m, serde_json::to_value(&c).unwrap()))?;
                    if r.is_none() {
                        ev.excluded("typed-API-cannot-express-this-length");
                        continue;
                    }
                    ev.eval(1);
                    ev.class(&format!("{}:{}", entry.name(), class));
                    if class == "valid" && c.ad.is_none() && r != Some(true) && entry != Entry::BoxFromBytesThenUnseal {
                        return Err(Violation::new("C04", "harness", format!("harness: authentic input for {} not accepted", entry.name()), serde_json::to_value(&c).unwrap()));
                    }
                    if len < entry.overhead() || class.starts_with("valid-") {
                        ev.nontrivial(fnv64(&[entry.name().as_bytes(), &len.to_le_bytes(), class.as_bytes(), &fi.to_le_bytes()]));
                    }
                    if len == 3 || len == 70 {
                        ev.sample(&format!("{}-{}-{}", entry.name(), class, len), || json!({"entry": entry.name(), "len": len, "class": class, "input": hx(&input[..input.len().min(40)])}));
                    }
                }
            }
        }
        Ok(())
    })?;
    // long authentic streams: hundreds of consecutive messages on ONE pull state (counter carries, no rekey), both APIs
    {
        use dryoc::classic::crypto_secretstream_xchacha20poly1305 as css;
        let streams: Vec<u64> = (0..ctx.tier.pick(8u64, 64)).collect();
        ctx.par_each(&streams, |_, &si, ev| {
            let k = keys(seed ^ 0x51 ^ si);
            let n = 300 + (si as usize * 37) % 400;
            let mut st = sodium::stream_init_pull(&k.header, &k.key);
            let cts: Vec<Vec<u8>> = (0..n).map(|i| sodium::stream_push(&mut st, &vec![i as u8; i % 5], None, if i % 97 == 96 && si % 2 == 0 { 2 } else { 0 })).collect();
            let r = no_panic(|| {
                let mut dst = css::State::new();
                css::crypto_secretstream_xchacha20poly1305_init_pull(&mut dst, &k.header, &k.key);
                let mut obj = dryoc::dryocstream::DryocStream::init_pull(&k.key, &k.header);
                let mut ok = 0usize;
                for c in &cts {
                    let mut m = vec![0u8; c.len() - 17];
                    let mut t = 0u8;
                    if css::crypto_secretstream_xchacha20poly1305_pull(&mut dst, &mut m, &mut t, c, None).is_ok() && obj.pull_to_vec(c, None).is_ok() {
                        ok += 1;
                    }
                }
                ok
            });
            ev.eval(n as u64 * 2);
            ev.class_n("long-authentic-stream-messages", n as u64 * 2);
            ev.nontrivial(fnv64(&[b"longstream", &si.to_le_bytes()]));
            match r {
                Ok(_) => Ok(()),
                Err(p) => Err(Violation::new("C04", "untrusted-input-stream-sequence", format!("pull panicked while consuming a stream of {n} authentic messages: {p} at {}", last_panic_loc()), json!({"keyseed": seed ^ 0x51 ^ si, "messages": n, "rekey_every_97": si % 2 == 0}))),
            }
        })?;
    }
    // all 256 stream tags, authentic, to both pull APIs
    let tags: Vec<u8> = (0..=255u8).collect();
    ctx.par_each(&tags, |_, &tag, ev| {
        for (mi, mlen) in [0usize, 1, 16, 63].iter().enumerate() {
            for op in [Opener::StreamPull, Opener::StreamObjPull] {
                let keyseed = seed ^ 0x77 ^ mi as u64;
                let k = keys(keyseed);
                let input = authentic(Entry::Aead(op), &k, &vec![tag; *mlen], tag);
                let c = Case { entry: Entry::Aead(op), keyseed, input: Hex(input), class: format!("authentic-tag-{tag:#04x}"), ad: None };
                let r = exec(&c).map_err(|m| Violation::new("C04", "untrusted-input", m, serde_json::to_value(&c).unwrap()))?;
                ev.eval(1);
                ev.class(&format!("{}:authentic-all-tags", op.name()));
                if tag > 3 {
                    ev.nontrivial(fnv64(&[op.name().as_bytes(), &[tag], &mlen.to_le_bytes()]));
                }
                if r != Some(true) {
                    ev.class("authentic-tagged-message-rejected (allowed by C04: Ok or Err)");
                }
            }
        }
        Ok(())
    })?;
    // password-hash strings
    let pw_entries = [Entry::PwStrVerify, Entry::PwNeedsRehash, Entry::PwFromStringVerify];
    let run_str = |s: &str, class: &str, ev: &mut Evidence| -> Result<(), String> {
        for e in pw_entries {
            let c = Case { entry: e, keyseed: 1, input: Hex(s.as_bytes().to_vec()), class: class.into(), ad: None };
            match exec(&c)? {
                None => ev.excluded("pw-string-with-unbounded-cost-not-hashed"),
                Some(_) => {
                    ev.eval(1);
                    ev.class(&format!("{}:{}", e.name(), class));
                    if s.contains("m=") || s.contains("t=") {
                        ev.nontrivial(fnv64(&[e.name().as_bytes(), s.as_bytes()]));
                    }
                }
            }
        }
        Ok(())
    };
    // valid strings from libsodium: every prefix and every single-character deletion
    let mut valids = vec![];
    for (alg, t) in [(sodium::ALG_ARGON2ID13, 1u64), (sodium::ALG_ARGON2I13, 3)] {
        valids.push(sodium::pwhash_str(b"correct horse", t, 8192, alg).ok_or_else(|| Violation::new("C04", "harness", "harness: libsodium pwhash_str", json!({})))?);
    }
    valids.push(sodium::argon2_encoded(sodium::ALG_ARGON2ID13, 2, 17, b"correct horse", &[7u8; 24], 48).unwrap());
    let mut derived: Vec<(String, String)> = vec![];
    for v in &valids {
        derived.push(("valid-libsodium-string".into(), v.clone()));
        let chars: Vec<char> = v.chars().collect();
        for i in 0..chars.len() {
            derived.push(("valid-prefix".into(), chars[..i].iter().collect()));
            let mut d = chars.clone();
            d.remove(i);
            derived.push(("valid-one-char-deleted".into(), d.into_iter().collect()));
            let mut d = chars.clone();
            d[i] = '$';
            derived.push(("valid-one-char-replaced-by-$".into(), d.into_iter().collect()));
            // multi-byte characters at every position (byte offsets computed on the assumption of ASCII break here)
            for mb in ['\u{e9}', '\u{20ac}', '\u{1d11e}'] {
                let mut d = chars.clone();
                d[i] = mb;
                derived.push(("valid-one-char-replaced-by-multibyte".into(), d.into_iter().collect()));
                let mut d = chars.clone();
                d.insert(i, mb);
                derived.push(("valid-multibyte-char-inserted".into(), d.into_iter().collect()));
            }
        }
    }
    ctx.par_each(&derived, |_, (class, s), ev| {
        run_str(s, class, ev).map_err(|m| Violation::new("C04", "untrusted-input", m, json!({"entry": "PwStrVerify", "keyseed": 1, "input": hx(s.as_bytes()), "class": class, "ad": null})))
    })?;
    for v in &valids {
        // sanity: a valid string verifies (guards the harness itself)
        let c = Case { entry: Entry::PwFromStringVerify, keyseed: 1, input: Hex(v.as_bytes().to_vec()), class: "valid".into(), ad: None };
        if exec(&c).ok().flatten() != Some(true) {
            return Err(Violation::new("C04", "harness", format!("harness: valid libsodium string {v} not verified by PwHash"), serde_json::to_value(&c).unwrap()));
        }
    }
    let n = ctx.tier.pick(24_000u32, 200_000);
    let shards: Vec<u64> = (0..ctx.threads as u64).collect();
    let per = n / ctx.threads.max(1) as u32 + 1;
    ctx.par_each(&shards, |_, &sh, ev| {
        run_prop("C04", "untrusted-input-string", seed.wrapping_mul(977).wrapping_add(sh), per, pw_string_strat(), ev, |s, ev| run_str(s, "grammar", ev))?;
        run_prop("C04", "untrusted-input-string", seed.wrapping_mul(979).wrapping_add(sh), per / 2, "[ -~]{0,160}", ev, |s, ev| run_str(s, "random-printable", ev))?;
        run_prop("C04", "untrusted-input-string", seed.wrapping_mul(983).wrapping_add(sh), per / 2, "\\PC{0,80}", ev, |s, ev| run_str(s, "random-utf8", ev))?;
        run_prop("C04", "untrusted-input-string", seed.wrapping_mul(991).wrapping_add(sh), per / 2, "[$=,mtpv0-9a-zA-Z+/]{0,120}", ev, |s, ev| run_str(s, "random-grammar-alphabet", ev))
    })?;
    // replay the committed fuzz corpora (golden seeds + anything a libFuzzer campaign added) through the plain oracle
    let verif = std::env::var("VERIF_DIR").unwrap_or("/verif".into());
    replay_corpus(&format!("{verif}/corpus/untrusted"), &mut ctx.ev)?;
    ctx.ev.sample_cap = 30;
    Ok(())
}

pub fn replay(v: &Violation) -> Result<(), String> {
    if v.kind == "untrusted-input-stream-sequence" {
        use dryoc::classic::crypto_secretstream_xchacha20poly1305 as css;
        let k = keys(v.case["keyseed"].as_u64().unwrap_or(0));
        let n = v.case["messages"].as_u64().unwrap_or(300) as usize;
        let rekey = v.case["rekey_every_97"].as_bool().unwrap_or(false);
        let mut st = sodium::stream_init_pull(&k.header, &k.key);
        let cts: Vec<Vec<u8>> = (0..n).map(|i| sodium::stream_push(&mut st, &vec![i as u8; i % 5], None, if i % 97 == 96 && rekey { 2 } else { 0 })).collect();
        return no_panic(|| {
            let mut dst = css::State::new();
            css::crypto_secretstream_xchacha20poly1305_init_pull(&mut dst, &k.header, &k.key);
            let mut obj = dryoc::dryocstream::DryocStream::init_pull(&k.key, &k.header);
            for c in &cts {
                let mut m = vec![0u8; c.len() - 17];
                let mut t = 0u8;
                let _ = css::crypto_secretstream_xchacha20poly1305_pull(&mut dst, &mut m, &mut t, c, None);
                let _ = obj.pull_to_vec(c, None);
            }
        })
        .map_err(|p| format!("pull panicked on a long authentic stream: {p}"));
    }
    if v.kind == "untrusted-input-string" {
        let s: String = from_case(&v.case)?;
        for e in [Entry::PwStrVerify, Entry::PwNeedsRehash, Entry::PwFromStringVerify] {
            exec(&Case { entry: e, keyseed: 1, input: Hex(s.as_bytes().to_vec()), class: "replay".into(), ad: None })?;
        }
        return Ok(());
    }
    let mut c: Case = from_case(&v.case)?;
    if c.entry.is_pw() {
        for e in [Entry::PwStrVerify, Entry::PwNeedsRehash, Entry::PwFromStringVerify] {
            c.entry = e;
            exec(&c)?;
        }
        return Ok(());
    }
    exec(&c).map(|_| ())
}

// ---------------------------------------------------------------- byte-level encoding shared with the libFuzzer target
pub fn all_entries() -> Vec<Entry> {
    let mut entries: Vec<Entry> = AEAD_ENTRIES.iter().map(|o| Entry::Aead(*o)).collect();
    entries.extend([
        Entry::SignOpen, Entry::SignVerifyDetached, Entry::SignFinalVerify, Entry::SignedMessageVerify, Entry::AuthVerify, Entry::AuthObjVerify,
        Entry::OtaVerify, Entry::OtaObjVerify, Entry::PwStrVerify, Entry::PwNeedsRehash, Entry::PwFromStringVerify,
    ]);
    entries
}

/// layout: [entry selector][keyseed selector (4 key sets)][ad: 0 = none, else ad length = byte-1 taken from the tail][payload...]
pub fn decode_fuzz_input(data: &[u8]) -> Option<Case> {
    if data.len() < 3 {
        return None;
    }
    let entries = all_entries();
    let entry = entries[data[0] as usize % entries.len()];
    let keyseed = (data[1] % 4) as u64 + 0xf00d;
    let mut payload = &data[3..];
    let mut ad = None;
    if matches!(entry, Entry::Aead(o) if o.kind() == Kind::Stream) && data[2] != 0 {
        let n = (data[2] as usize - 1).min(payload.len());
        ad = Some(Hex(payload[payload.len() - n..].to_vec()));
        payload = &payload[..payload.len() - n];
    }
    Some(Case { entry, keyseed, input: Hex(payload.to_vec()), class: "fuzz".into(), ad })
}

pub fn encode_fuzz_input(entry_index: usize, keysel: u8, payload: &[u8]) -> Vec<u8> {
    let mut v = vec![entry_index as u8, keysel, 0];
    v.extend_from_slice(payload);
    v
}

/// golden seed corpus: authentic inputs for every entry (written once; committed under /verif/corpus)
pub fn write_seed_corpus(dir: &str) -> std::io::Result<usize> {
    std::fs::create_dir_all(dir)?;
    let entries = all_entries();
    let mut n = 0;
    for (i, e) in entries.iter().enumerate() {
        for keysel in 0..2u8 {
            let k = keys(keysel as u64 + 0xf00d);
            let mut f = Fill::new(i as u64, "corpus");
            if e.is_pw() {
                let s = [
                    sodium::pwhash_str(&k.password, 1, 8192, sodium::ALG_ARGON2ID13).unwrap(),
                    sodium::pwhash_str(&k.password, 3, 8192, sodium::ALG_ARGON2I13).unwrap(),
                    sodium::argon2_encoded(sodium::ALG_ARGON2ID13, 2, 17, &k.password, &[7u8; 24], 48).unwrap(),
                ];
                for (j, st) in s.iter().enumerate() {
                    std::fs::write(format!("{dir}/seed-{i:02}-{keysel}-{j}"), encode_fuzz_input(i, keysel, st.as_bytes()))?;
                    n += 1;
                }
            } else {
                for (j, len) in [0usize, 1, 20, 100].iter().enumerate() {
                    let w = authentic(*e, &k, &f.bytes(*len), (j % 4) as u8);
                    std::fs::write(format!("{dir}/seed-{i:02}-{keysel}-{j}"), encode_fuzz_input(i, keysel, &w))?;
                    n += 1;
                }
            }
        }
    }
    Ok(n)
}

/// replay every file of a corpus directory through the plain oracle (no fuzzer involved)
pub fn replay_corpus(dir: &str, ev: &mut Evidence) -> Result<(), Violation> {
    let Ok(rd) = std::fs::read_dir(dir) else { return Ok(()) };
    let mut files: Vec<_> = rd.filter_map(|e| e.ok()).map(|e| e.path()).collect();
    files.sort();
    for p in files {
        let Ok(data) = std::fs::read(&p) else { continue };
        let Some(c) = decode_fuzz_input(&data) else { continue };
        ev.eval(1);
        ev.class("corpus-replay");
        exec(&c).map_err(|m| Violation::new("C04", "untrusted-input", format!("{m} (corpus file {})", p.display()), serde_json::to_value(&c).unwrap()))?;
    }
    Ok(())
}
