use crate::core::*;

pub mod c07;
pub mod c12;

pub fn dispatch(ctx: &mut Ctx) -> Result<(), Violation> {
    match ctx.id.as_str() {
        "C07" => c07::run(ctx),
        "C12" => c12::run(ctx),
        other => {
            eprintln!("unknown property {other}");
            std::process::exit(2);
        }
    }
}

pub fn replay(v: &Violation) -> Result<(), String> {
    match v.property.as_str() {
        "C07" => c07::replay(v),
        "C12" => c12::replay(v),
        other => Err(format!("no replay for {other}")),
    }
}

pub fn worker(_args: &[String]) -> i32 {
    2
}
