use crate::core::*;

macro_rules! props {
    ($($id:literal => $m:ident),* $(,)?) => {
        $(pub mod $m;)*
        pub fn dispatch(ctx: &mut Ctx) -> Result<(), Violation> {
            match ctx.id.as_str() {
                $($id => $m::run(ctx),)*
                other => {
                    eprintln!("unknown property {other}");
                    std::process::exit(2);
                }
            }
        }
        pub fn replay(v: &Violation) -> Result<(), String> {
            match v.property.as_str() {
                $($id => $m::replay(v),)*
                other => Err(format!("no replay for {other}")),
            }
        }
    };
}

props! {
    "C01" => c01,
    "C02" => c02,
    "C03" => c03,
    "C04" => c04,
    "C05" => c05,
    "C06" => c06,
    "C07" => c07,
    "C08" => c08,
    "C09" => c09,
    "C10" => c10,
    "C11" => c11,
    "C12" => c12,
    "C13" => c13,
    "C14" => c14,
    "C15" => c15,
    "C16" => c16,
    "C17" => c17,
    "C18" => c18,
    "C19" => c19,
    "C20" => c20,
}

#[cfg(feature = "nightly")]
pub mod prot;

#[cfg(feature = "nightly")]
pub fn worker(args: &[String]) -> i32 {
    prot::worker(args)
}

#[cfg(not(feature = "nightly"))]
pub fn worker(_args: &[String]) -> i32 {
    2
}
