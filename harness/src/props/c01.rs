//! C01 — authenticated encryption round-trips and is byte-compatible with libsodium.
use crate::aead::*;
use crate::core::*;
use crate::sodium;
use dryoc::classic::crypto_box::*;
use dryoc::classic::crypto_secretbox::*;
use dryoc::dryocbox::DryocBox;
use dryoc::dryocsecretbox::DryocSecretBox;
use dryoc::keypair::KeyPair;
use dryoc::precalc::PrecalcSecretKey;
use dryoc::types::*;
use serde::{Deserialize, Serialize};
use serde_json::json;

#[derive(Debug, Clone, Serialize, Deserialize)]
pub struct Case {
    pub msg: Hex,
    pub nonce: Hex,
    pub key: Hex,
    pub sender_seed: Hex,
    pub recipient_seed: Hex,
    pub nightly_only: bool,
}

fn a<const N: usize>(h: &[u8]) -> [u8; N] {
    h.try_into().expect("length")
}

type Out = (Vec<u8>, Vec<u8>); // (tag, ciphertext)

fn split16(w: &[u8]) -> Out {
    (w[..16].to_vec(), w[16..].to_vec())
}

struct Ctxt<'a> {
    form: &'a mut String,
    n: &'a mut u64,
}

fn expect(c: &mut Ctxt, form: &str, got: Out, want: &Out) -> Result<(), String> {
    *c.form = form.to_string();
    *c.n += 1;
    if got != *want {
        return Err(format!(
            "{form}: tag/ciphertext {}|{} differ from libsodium {}|{}",
            hx(&got.0),
            hx(&got.1[..got.1.len().min(40)]),
            hx(&want.0),
            hx(&want.1[..want.1.len().min(40)])
        ));
    }
    Ok(())
}

fn e<T>(r: Result<T, dryoc::Error>, what: &str) -> Result<T, String> {
    r.map_err(|e| format!("{what}: unexpected error {e:?}"))
}

/// All sealing forms for the stable build. Returns number of forms evaluated.
pub fn check(c: &Case, forms_seen: &mut Vec<String>) -> Result<u64, String> {
    let msg = &c.msg.0;
    let nonce: [u8; 24] = a(&c.nonce);
    let key: [u8; 32] = a(&c.key);
    let (spk, ssk) = sodium::box_seed_keypair(&a(&c.sender_seed));
    let (rpk, rsk) = sodium::box_seed_keypair(&a(&c.recipient_seed));
    let mut form = String::new();
    let mut n = 0u64;
    let mut cx = Ctxt { form: &mut form, n: &mut n };
    let r = (|| -> Result<(), String> {
        if !c.nightly_only {
            // ---------------- secretbox
            let (rct, rtag) = sodium::secretbox_detached(msg, &nonce, &key);
            let want: Out = (rtag.to_vec(), rct.clone());
            let reasy = sodium::secretbox_easy(msg, &nonce, &key);
            if split16(&reasy) != want {
                return Err("harness: libsodium easy != detached".into());
            }
            // caller-provided output buffers are pre-filled with a non-zero pattern: nothing may depend on their contents
            let dirty = |n: usize| -> Vec<u8> { (0..n).map(|i| 0xc3u8 ^ (i as u8).wrapping_mul(29)).collect() };
            let mut ct = dirty(msg.len() + 16);
            e(crypto_secretbox_easy(&mut ct, msg, &nonce, &key), "crypto_secretbox_easy")?;
            expect(&mut cx, "crypto_secretbox_easy", split16(&ct), &want)?;
            let mut ct = dirty(msg.len());
            let mut tag = [0x5au8; 16];
            crypto_secretbox_detached(&mut ct, &mut tag, msg, &nonce, &key);
            expect(&mut cx, "crypto_secretbox_detached", (tag.to_vec(), ct), &want)?;
            let mut buf = msg.clone();
            buf.resize(msg.len() + 16, 0);
            e(crypto_secretbox_easy_inplace(&mut buf, &nonce, &key), "crypto_secretbox_easy_inplace")?;
            expect(&mut cx, "crypto_secretbox_easy_inplace", split16(&buf), &want)?;
            // object API x containers
            let b: DryocSecretBox<StackByteArray<16>, Vec<u8>> =
                DryocSecretBox::encrypt(msg, &StackByteArray::<24>::from(nonce), &StackByteArray::<32>::from(key));
            expect(&mut cx, "DryocSecretBox<Stack,Vec>::encrypt.to_vec", split16(&b.to_vec()), &want)?;
            let tb: Vec<u8> = b.to_bytes();
            expect(&mut cx, "DryocSecretBox::to_bytes", split16(&tb), &want)?;
            let b2 = DryocSecretBox::<StackByteArray<16>, Vec<u8>>::from_bytes(&tb).map_err(|e| format!("from_bytes: {e:?}"))?;
            if b2 != b {
                return Err("DryocSecretBox::from_bytes(to_bytes()) != original".into());
            }
            expect(&mut cx, "DryocSecretBox::into_vec", split16(&b.clone().into_vec()), &want)?;
            let (t, d) = b.into_parts();
            expect(&mut cx, "DryocSecretBox::into_parts", (t.to_vec(), d), &want)?;
            let b: DryocSecretBox<[u8; 16], Vec<u8>> = DryocSecretBox::encrypt(msg.as_slice(), &nonce, &key);
            expect(&mut cx, "DryocSecretBox<[u8;16],Vec>::encrypt(slice msg, array keys)", split16(&b.to_vec()), &want)?;
            let (ks, ns): (&[u8], &[u8]) = (&key, &nonce);
            let b: DryocSecretBox<Vec<u8>, Vec<u8>> = DryocSecretBox::encrypt(msg, &ns, &ks);
            expect(&mut cx, "DryocSecretBox<Vec,Vec>::encrypt(&[u8] keys)", split16(&b.to_vec()), &want)?;
            let b = DryocSecretBox::encrypt_to_vecbox(msg, &nonce.to_vec(), &key.to_vec());
            expect(&mut cx, "DryocSecretBox::encrypt_to_vecbox(Vec keys)", split16(&b.to_vec()), &want)?;
            let pt = b.decrypt_to_vec(&nonce, &key).map_err(|e| format!("decrypt_to_vec: {e:?}"))?;
            if pt != *msg {
                return Err("DryocSecretBox round trip lost the message".into());
            }
            // every dryoc opener on the reference material + libsodium on dryoc's bytes (identical by now)
            let mat = Material {
                kind: Kind::SecretBox, key: Hex(key.to_vec()), nonce: Hex(nonce.to_vec()), pk: Hex(vec![]), sk: Hex(vec![]), epk: Hex(vec![]),
                tag: Hex(want.0.clone()), ct: Hex(want.1.clone()), header: Hex(vec![]), ad: None, prior: vec![], short_wire: None, msg: Hex(msg.clone()), stream_tag: 0,
            };
            open_all(&mut cx, &mat)?;

            // ---------------- box
            let (rct, rtag) = sodium::box_detached(msg, &nonce, &rpk, &ssk).ok_or("harness: box_detached")?;
            let want: Out = (rtag.to_vec(), rct);
            let mut ct = dirty(msg.len() + 16);
            e(crypto_box_easy(&mut ct, msg, &nonce, &rpk, &ssk), "crypto_box_easy")?;
            expect(&mut cx, "crypto_box_easy", split16(&ct), &want)?;
            let mut ct = dirty(msg.len());
            let mut tag = [0x5au8; 16];
            crypto_box_detached(&mut ct, &mut tag, msg, &nonce, &rpk, &ssk);
            expect(&mut cx, "crypto_box_detached", (tag.to_vec(), ct), &want)?;
            let mut buf = msg.clone();
            let mut tag = [0u8; 16];
            e(crypto_box_detached_inplace(&mut buf, &mut tag, &nonce, &rpk, &ssk), "crypto_box_detached_inplace")?;
            expect(&mut cx, "crypto_box_detached_inplace", (tag.to_vec(), buf), &want)?;
            let mut buf = msg.clone();
            buf.resize(msg.len() + 16, 0);
            e(crypto_box_easy_inplace(&mut buf, &nonce, &rpk, &ssk), "crypto_box_easy_inplace")?;
            expect(&mut cx, "crypto_box_easy_inplace", split16(&buf), &want)?;
            let b = e(DryocBox::encrypt_to_vecbox(msg, &nonce.into(), &rpk.into(), &StackByteArray::<32>::from(ssk)), "encrypt_to_vecbox")?;
            expect(&mut cx, "DryocBox::encrypt_to_vecbox", split16(&b.to_vec()), &want)?;
            let tb: Vec<u8> = b.to_bytes();
            let b2 = DryocBox::<StackByteArray<32>, StackByteArray<16>, Vec<u8>>::from_bytes(&tb).map_err(|e| format!("from_bytes: {e:?}"))?;
            if b2 != b {
                return Err("DryocBox::from_bytes(to_bytes()) != original".into());
            }
            let b: DryocBox<Vec<u8>, Vec<u8>, Vec<u8>> = e(DryocBox::encrypt(msg.as_slice(), &nonce.to_vec(), &rpk.to_vec(), &ssk.to_vec()), "DryocBox<Vec..>::encrypt")?;
            expect(&mut cx, "DryocBox<Vec,Vec,Vec>::encrypt(Vec keys)", split16(&b.to_vec()), &want)?;
            let (t, d, epk) = b.into_parts();
            if epk.is_some() {
                return Err("DryocBox::encrypt produced an ephemeral key".into());
            }
            expect(&mut cx, "DryocBox::into_parts", (t, d), &want)?;
            let b: DryocBox<[u8; 32], [u8; 16], Vec<u8>> = e(DryocBox::encrypt(msg, &nonce, &rpk, &ssk), "DryocBox<arrays>::encrypt")?;
            expect(&mut cx, "DryocBox<[u8;32],[u8;16],Vec>::encrypt(array keys)", split16(&b.to_vec()), &want)?;
            let mat = Material {
                kind: Kind::Box, key: Hex(vec![]), nonce: Hex(nonce.to_vec()), pk: Hex(spk.to_vec()), sk: Hex(rsk.to_vec()), epk: Hex(vec![]),
                tag: Hex(want.0.clone()), ct: Hex(want.1.clone()), header: Hex(vec![]), ad: None, prior: vec![], short_wire: None, msg: Hex(msg.clone()), stream_tag: 0,
            };
            open_all(&mut cx, &mat)?;

            // ---------------- precomputed key
            let rk = sodium::box_beforenm(&rpk, &ssk).ok_or("harness: beforenm")?;
            let k = crypto_box_beforenm(&rpk, &ssk);
            if k != rk {
                return Err(format!("crypto_box_beforenm = {} but libsodium = {}", hx(&k), hx(&rk)));
            }
            let k2 = crypto_box_beforenm(&spk, &rsk);
            if k2 != rk {
                return Err("crypto_box_beforenm not symmetric between the two parties".into());
            }
            let wire = sodium::box_easy_afternm(msg, &nonce, &rk);
            if split16(&wire) != want {
                return Err("harness: afternm != box".into());
            }
            let mut ct = dirty(msg.len());
            let mut tag = [0x5au8; 16];
            crypto_box_detached_afternm(&mut ct, &mut tag, msg, &nonce, &k);
            expect(&mut cx, "crypto_box_detached_afternm", (tag.to_vec(), ct), &want)?;
            let mut buf = msg.clone();
            let mut tag = [0u8; 16];
            crypto_box_detached_afternm_inplace(&mut buf, &mut tag, &nonce, &k);
            expect(&mut cx, "crypto_box_detached_afternm_inplace", (tag.to_vec(), buf), &want)?;
            let pk1 = PrecalcSecretKey::precalculate(&rpk, &ssk);
            if pk1.as_slice() != rk {
                return Err("PrecalcSecretKey::precalculate differs from libsodium beforenm".into());
            }
            let kp = KeyPair::<StackByteArray<32>, StackByteArray<32>>::from_slices(&spk, &ssk).map_err(|e| format!("{e:?}"))?;
            let pk2 = kp.precalculate(&StackByteArray::<32>::from(rpk));
            if pk2.as_slice() != rk {
                return Err("KeyPair::precalculate differs from libsodium beforenm".into());
            }
            let b = e(DryocBox::precalc_encrypt_to_vecbox(msg, &nonce.into(), &pk1), "precalc_encrypt_to_vecbox")?;
            expect(&mut cx, "DryocBox::precalc_encrypt_to_vecbox(PrecalcSecretKey)", split16(&b.to_vec()), &want)?;
            let b: DryocBox<StackByteArray<32>, [u8; 16], Vec<u8>> = e(DryocBox::precalc_encrypt(msg, &nonce, &pk2), "precalc_encrypt")?;
            expect(&mut cx, "DryocBox::precalc_encrypt(KeyPair::precalculate)", split16(&b.to_vec()), &want)?;
            let pt: Vec<u8> = b.precalc_decrypt(&nonce, &PrecalcSecretKey::precalculate(&spk, &rsk)).map_err(|e| format!("precalc_decrypt: {e:?}"))?;
            if pt != *msg {
                return Err("precalc round trip lost the message".into());
            }
            let mat = Material {
                kind: Kind::Precalc, key: Hex(rk.to_vec()), nonce: Hex(nonce.to_vec()), pk: Hex(spk.to_vec()), sk: Hex(rsk.to_vec()), epk: Hex(vec![]),
                tag: Hex(want.0.clone()), ct: Hex(want.1.clone()), header: Hex(vec![]), ad: None, prior: vec![], short_wire: None, msg: Hex(msg.clone()), stream_tag: 0,
            };
            open_all(&mut cx, &mat)?;

            // ---------------- sealed boxes (ephemeral key chosen inside dryoc)
            let mut sealed = dirty(msg.len() + 48);
            e(crypto_box_seal(&mut sealed, msg, &rpk), "crypto_box_seal")?;
            check_sealed(&mut cx, "crypto_box_seal", &sealed, msg, &rpk, &rsk)?;
            let b = e(DryocBox::seal_to_vecbox(msg, &rpk.into()), "seal_to_vecbox")?;
            check_sealed(&mut cx, "DryocBox::seal_to_vecbox.to_vec", &b.to_vec(), msg, &rpk, &rsk)?;
            let tb: Vec<u8> = b.to_bytes();
            let b2 = DryocBox::<StackByteArray<32>, StackByteArray<16>, Vec<u8>>::from_sealed_bytes(&tb).map_err(|e| format!("from_sealed_bytes: {e:?}"))?;
            if b2 != b {
                return Err("DryocBox::from_sealed_bytes(to_bytes()) != original".into());
            }
            let b: DryocBox<Vec<u8>, Vec<u8>, Vec<u8>> = e(DryocBox::seal(msg.as_slice(), &rpk.to_vec()), "DryocBox<Vec..>::seal")?;
            check_sealed(&mut cx, "DryocBox<Vec,Vec,Vec>::seal", &b.to_vec(), msg, &rpk, &rsk)?;
            // detached form of a sealed box through the object API: parts out, parts in, still the same wire
            let (pt, pd, pe) = b.clone().into_parts();
            let rb: DryocBox<Vec<u8>, Vec<u8>, Vec<u8>> = DryocBox::from_parts(pt, pd, pe);
            check_sealed(&mut cx, "DryocBox::seal -> into_parts -> from_parts -> to_vec", &rb.to_vec(), msg, &rpk, &rsk)?;
            // libsodium-sealed opens under every dryoc form
            let ls = sodium::box_seal(msg, &rpk);
            let mat = Material {
                kind: Kind::Sealed, key: Hex(vec![]), nonce: Hex(vec![]), pk: Hex(rpk.to_vec()), sk: Hex(rsk.to_vec()), epk: Hex(ls[..32].to_vec()),
                tag: Hex(ls[32..48].to_vec()), ct: Hex(ls[48..].to_vec()), header: Hex(vec![]), ad: None, prior: vec![], short_wire: None, msg: Hex(msg.clone()), stream_tag: 0,
            };
            open_all(&mut cx, &mat)?;
        }
        #[cfg(feature = "nightly")]
        nightly_forms(&mut cx, msg, &nonce, &key, (&spk, &ssk), (&rpk, &rsk))?;
        Ok(())
    })();
    if !forms_seen.contains(&form) {
        forms_seen.push(form.clone());
    }
    r.map(|_| n)
}

fn open_all(cx: &mut Ctxt, mat: &Material) -> Result<(), String> {
    if sodium_accepts(mat).as_deref() != Some(&mat.msg[..]) {
        return Err(format!("libsodium does not open the {:?} ciphertext to the original message", mat.kind));
    }
    for &op in ALL_OPENERS.iter().filter(|o| o.kind() == mat.kind) {
        *cx.form = format!("open:{}", op.name());
        *cx.n += 1;
        match open_caught(op, mat) {
            None => {}
            Some(Err(p)) => return Err(format!("{}: {p}", op.name())),
            Some(Ok(o)) => match o.result {
                Ok(pt) if pt[..] == mat.msg[..] => {}
                Ok(pt) => return Err(format!("{}: opened to {} instead of the original message", op.name(), hx(&pt[..pt.len().min(40)]))),
                Err(er) => return Err(format!("{}: rejected an authentic libsodium-compatible ciphertext: {er}", op.name())),
            },
        }
    }
    Ok(())
}

fn check_sealed(cx: &mut Ctxt, form: &str, sealed: &[u8], msg: &[u8], rpk: &[u8; 32], rsk: &[u8; 32]) -> Result<(), String> {
    *cx.form = form.to_string();
    *cx.n += 1;
    if sealed.len() != msg.len() + 48 {
        return Err(format!("{form}: sealed length {} != message + 48", sealed.len()));
    }
    // structure: epk || crypto_box_easy(msg, nonce = BLAKE2b-24(epk||rpk), epk as sender pk, recipient sk)
    let epk: [u8; 32] = a(&sealed[..32]);
    let mut inp = epk.to_vec();
    inp.extend_from_slice(rpk);
    let nonce: [u8; 24] = a(&sodium::generichash(24, &inp, None).ok_or("harness: generichash")?);
    let opened = sodium::box_open_easy(&sealed[32..], &nonce, &epk, rsk);
    if opened.as_deref() != Some(msg) {
        return Err(format!("{form}: sealed layout is not epk || box(msg, BLAKE2b-24(epk||rpk), epk, rsk)"));
    }
    match sodium::box_seal_open(sealed, rpk, rsk) {
        Some(m) if m == msg => {}
        _ => return Err(format!("{form}: libsodium crypto_box_seal_open does not open dryoc's sealed box")),
    }
    let mat = Material {
        kind: Kind::Sealed, key: Hex(vec![]), nonce: Hex(vec![]), pk: Hex(rpk.to_vec()), sk: Hex(rsk.to_vec()), epk: Hex(sealed[..32].to_vec()),
        tag: Hex(sealed[32..48].to_vec()), ct: Hex(sealed[48..].to_vec()), header: Hex(vec![]), ad: None, prior: vec![], short_wire: None, msg: Hex(msg.to_vec()), stream_tag: 0,
    };
    open_all(cx, &mat)
}

#[cfg(feature = "nightly")]
fn nightly_forms(cx: &mut Ctxt, msg: &Vec<u8>, nonce: &[u8; 24], key: &[u8; 32], s: (&[u8; 32], &[u8; 32]), r: (&[u8; 32], &[u8; 32])) -> Result<(), String> {
    use dryoc::protected::*;
    let io = |e: std::io::Error| format!("protected memory: {e:?}");
    let de = |e: dryoc::Error| format!("{e:?}");
    let (rct, rtag) = sodium::secretbox_detached(msg, nonce, key);
    let want: Out = (rtag.to_vec(), rct);
    // heap / locked containers for keys, nonces, macs and data
    let hk = HeapByteArray::<32>::from(key);
    let hn = HeapByteArray::<24>::from(nonce);
    let b: DryocSecretBox<HeapByteArray<16>, HeapBytes> = DryocSecretBox::encrypt(msg, &hn, &hk);
    expect(cx, "DryocSecretBox<HeapByteArray,HeapBytes>::encrypt(heap keys)", split16(&b.to_vec()), &want)?;
    let lk = HeapByteArray::<32>::from_slice_into_locked(key).map_err(de)?;
    let ln = HeapByteArray::<24>::from_slice_into_readonly_locked(nonce).map_err(de)?;
    let lm = HeapBytes::from_slice_into_locked(msg).map_err(de)?;
    let b: DryocSecretBox<Locked<HeapByteArray<16>>, LockedBytes> = DryocSecretBox::encrypt(&lm, &ln, &lk);
    expect(cx, "DryocSecretBox<Locked mac,LockedBytes>::encrypt(locked msg, LockedRO nonce, Locked key)", split16(&b.to_vec()), &want)?;
    let lb: LockedBytes = b.to_bytes();
    if split16(lb.as_slice()) != want {
        return Err("to_bytes::<LockedBytes> differs".into());
    }
    let pt: LockedBytes = b.decrypt(&ln, &lk).map_err(de)?;
    if pt.as_slice() != msg.as_slice() {
        return Err("locked secretbox round trip lost the message".into());
    }
    let rok = lk.mprotect_readonly().map_err(io)?;
    let pt: HeapBytes = b.decrypt(&hn, &rok).map_err(de)?;
    if pt.as_slice() != msg.as_slice() {
        return Err("LockedRO key decrypt lost the message".into());
    }
    // box with locked key pairs
    let (rct, rtag) = sodium::box_detached(msg, nonce, r.0, s.1).ok_or("harness")?;
    let want: Out = (rtag.to_vec(), rct);
    let lssk = HeapByteArray::<32>::from_slice_into_locked(s.1).map_err(de)?;
    let lrpk = HeapByteArray::<32>::from_slice_into_locked(r.0).map_err(de)?;
    let b: DryocBox<Locked<HeapByteArray<32>>, Locked<HeapByteArray<16>>, LockedBytes> = DryocBox::encrypt(&lm, &ln, &lrpk, &lssk).map_err(de)?;
    expect(cx, "DryocBox<Locked..>::encrypt(locked keys)", split16(&b.to_vec()), &want)?;
    let lrsk = HeapByteArray::<32>::from_slice_into_readonly_locked(r.1).map_err(de)?;
    let lspk = HeapByteArray::<32>::from_slice_into_readonly_locked(s.0).map_err(de)?;
    let pt: LockedBytes = b.decrypt(&ln, &lspk, &lrsk).map_err(de)?;
    if pt.as_slice() != msg.as_slice() {
        return Err("locked box round trip lost the message".into());
    }
    let pc = PrecalcSecretKey::precalculate_locked(&lrpk, &lssk).map_err(io)?;
    let rk = sodium::box_beforenm(r.0, s.1).ok_or("harness")?;
    if pc.as_slice() != rk {
        return Err("precalculate_locked differs from libsodium beforenm".into());
    }
    let b: DryocBox<HeapByteArray<32>, HeapByteArray<16>, HeapBytes> = DryocBox::precalc_encrypt(msg, &hn, &pc).map_err(de)?;
    expect(cx, "DryocBox<Heap..>::precalc_encrypt(locked precalc key)", split16(&b.to_vec()), &want)?;
    let pcro = PrecalcSecretKey::precalculate_readonly_locked(&lspk, &lrsk).map_err(io)?;
    let pt: HeapBytes = b.precalc_decrypt(&hn, &pcro).map_err(de)?;
    if pt.as_slice() != msg.as_slice() {
        return Err("readonly-locked precalc round trip lost the message".into());
    }
    // sealed with locked containers
    let b: DryocBox<Locked<HeapByteArray<32>>, Locked<HeapByteArray<16>>, LockedBytes> = DryocBox::seal(&lm, &lrpk).map_err(de)?;
    let sealed = b.to_vec();
    check_sealed(cx, "DryocBox<Locked..>::seal", &sealed, msg, r.0, r.1)?;
    let kp: KeyPair<Locked<HeapByteArray<32>>, Locked<HeapByteArray<32>>> = KeyPair {
        public_key: HeapByteArray::<32>::from_slice_into_locked(r.0).map_err(de)?,
        secret_key: HeapByteArray::<32>::from_slice_into_locked(r.1).map_err(de)?,
    };
    let pt: LockedBytes = b.unseal(&kp).map_err(de)?;
    if pt.as_slice() != msg.as_slice() {
        return Err("locked unseal lost the message".into());
    }
    Ok(())
}


// ---------------------------------------------------------------- call histories over a small pool of identities
// State carried between calls (caches, reused buffers) can only show up when the SAME public key meets
// DIFFERENT secret keys (or vice versa) in adjacent calls; single round trips never produce that.
#[derive(Debug, Clone, Serialize, Deserialize)]
pub enum HOp {
    /// sender s -> recipient r through form f (0 easy, 1 detached, 2 easy_inplace, 3 object, 4 afternm)
    Box { s: usize, r: usize, f: usize, len: usize },
    Seal { r: usize, len: usize, object: bool },
    Beforenm { s: usize, r: usize },
    Secretbox { k: usize, len: usize },
    /// open the i-th still-pending ciphertext (with the recipient's keys), through opener variant v
    Open { i: usize, v: usize },
}

#[derive(Debug, Clone, Serialize, Deserialize)]
pub struct HistCase {
    pub fill: u64,
    pub ops: Vec<HOp>,
}

enum Pending {
    Boxed { wire: Vec<u8>, nonce: [u8; 24], s: usize, r: usize, msg: Vec<u8> },
    Sealed { wire: Vec<u8>, r: usize, msg: Vec<u8> },
    Secret { wire: Vec<u8>, nonce: [u8; 24], k: usize, msg: Vec<u8> },
}

pub fn check_history(c: &HistCase) -> Result<u64, String> {
    let mut f = Fill::new(c.fill, "C01:hist");
    let ids: Vec<([u8; 32], [u8; 32])> = (0..3).map(|_| sodium::box_seed_keypair(&f.arr())).collect();
    let syms: Vec<[u8; 32]> = (0..2).map(|_| f.arr()).collect();
    let mut pending: Vec<Pending> = vec![];
    let mut n = 0u64;
    for (step, op) in c.ops.iter().enumerate() {
        n += 1;
        match op {
            HOp::Box { s, r, f: form, len } => {
                let (s, r) = (s % 3, r % 3);
                let msg = f.bytes(*len);
                let nonce: [u8; 24] = f.arr();
                let want = sodium::box_easy(&msg, &nonce, &ids[r].0, &ids[s].1).ok_or("harness: box_easy")?;
                let got: Vec<u8> = match form % 5 {
                    0 => {
                        let mut ct = vec![0xe7u8; msg.len() + 16];
                        e(crypto_box_easy(&mut ct, &msg, &nonce, &ids[r].0, &ids[s].1), "crypto_box_easy")?;
                        ct
                    }
                    1 => {
                        let mut ct = vec![0u8; msg.len()];
                        let mut tag = [0u8; 16];
                        crypto_box_detached(&mut ct, &mut tag, &msg, &nonce, &ids[r].0, &ids[s].1);
                        [tag.to_vec(), ct].concat()
                    }
                    2 => {
                        let mut buf = msg.clone();
                        buf.resize(msg.len() + 16, 0);
                        e(crypto_box_easy_inplace(&mut buf, &nonce, &ids[r].0, &ids[s].1), "crypto_box_easy_inplace")?;
                        buf
                    }
                    3 => e(DryocBox::encrypt_to_vecbox(&msg, &nonce.into(), &ids[r].0.into(), &StackByteArray::<32>::from(ids[s].1)), "DryocBox::encrypt")?.to_vec(),
                    _ => {
                        let k = crypto_box_beforenm(&ids[r].0, &ids[s].1);
                        let mut ct = vec![0u8; msg.len()];
                        let mut tag = [0u8; 16];
                        crypto_box_detached_afternm(&mut ct, &mut tag, &msg, &nonce, &k);
                        [tag.to_vec(), ct].concat()
                    }
                };
                if got != want {
                    return Err(format!("step {step} {op:?}: ciphertext differs from libsodium's after the preceding calls (state carried between calls?)"));
                }
                pending.push(Pending::Boxed { wire: got, nonce, s, r, msg });
            }
            HOp::Seal { r, len, object } => {
                let r = r % 3;
                let msg = f.bytes(*len);
                let wire = if *object {
                    e(DryocBox::seal_to_vecbox(&msg, &ids[r].0.into()), "DryocBox::seal")?.to_vec()
                } else {
                    let mut ct = vec![0u8; msg.len() + 48];
                    e(crypto_box_seal(&mut ct, &msg, &ids[r].0), "crypto_box_seal")?;
                    ct
                };
                if sodium::box_seal_open(&wire, &ids[r].0, &ids[r].1).as_deref() != Some(&msg[..]) {
                    return Err(format!("step {step} {op:?}: libsodium cannot open the sealed box dryoc produced after the preceding calls"));
                }
                pending.push(Pending::Sealed { wire, r, msg });
            }
            HOp::Beforenm { s, r } => {
                let (s, r) = (s % 3, r % 3);
                let k = crypto_box_beforenm(&ids[r].0, &ids[s].1);
                if Some(k) != sodium::box_beforenm(&ids[r].0, &ids[s].1) {
                    return Err(format!("step {step} {op:?}: crypto_box_beforenm differs from libsodium's after the preceding calls"));
                }
                let p = PrecalcSecretKey::precalculate(&ids[r].0, &ids[s].1);
                if p.as_slice() != k {
                    return Err(format!("step {step}: PrecalcSecretKey::precalculate differs from crypto_box_beforenm"));
                }
            }
            HOp::Secretbox { k, len } => {
                let k = k % 2;
                let msg = f.bytes(*len);
                let nonce: [u8; 24] = f.arr();
                let mut ct = vec![0u8; msg.len() + 16];
                e(crypto_secretbox_easy(&mut ct, &msg, &nonce, &syms[k]), "crypto_secretbox_easy")?;
                if ct != sodium::secretbox_easy(&msg, &nonce, &syms[k]) {
                    return Err(format!("step {step} {op:?}: secretbox differs from libsodium's"));
                }
                pending.push(Pending::Secret { wire: ct, nonce, k, msg });
            }
            HOp::Open { i, v } => {
                if pending.is_empty() {
                    continue;
                }
                let p = pending.remove(i % pending.len());
                let (got, msg): (Result<Vec<u8>, String>, Vec<u8>) = match p {
                    Pending::Boxed { wire, nonce, s, r, msg } => {
                        let mut m = vec![0u8; msg.len()];
                        let res = match v % 3 {
                            0 => crypto_box_open_easy(&mut m, &wire, &nonce, &ids[s].0, &ids[r].1).map(|_| m).map_err(|e| format!("{e:?}")),
                            1 => {
                                let mut buf = wire.clone();
                                crypto_box_open_easy_inplace(&mut buf, &nonce, &ids[s].0, &ids[r].1).map(|_| buf[..msg.len()].to_vec()).map_err(|e| format!("{e:?}"))
                            }
                            _ => DryocBox::<StackByteArray<32>, StackByteArray<16>, Vec<u8>>::from_bytes(&wire)
                                .and_then(|b| b.decrypt_to_vec(&nonce.into(), &ids[s].0.into(), &StackByteArray::<32>::from(ids[r].1)))
                                .map_err(|e| format!("{e:?}")),
                        };
                        (res, msg)
                    }
                    Pending::Sealed { wire, r, msg } => {
                        let mut m = vec![0u8; msg.len()];
                        let res = if v % 2 == 0 {
                            crypto_box_seal_open(&mut m, &wire, &ids[r].0, &ids[r].1).map(|_| m).map_err(|e| format!("{e:?}"))
                        } else {
                            let kp = KeyPair::<StackByteArray<32>, StackByteArray<32>>::from_slices(&ids[r].0, &ids[r].1).map_err(|e| format!("{e:?}"))?;
                            DryocBox::<StackByteArray<32>, StackByteArray<16>, Vec<u8>>::from_sealed_bytes(&wire).and_then(|b| b.unseal_to_vec(&kp)).map_err(|e| format!("{e:?}"))
                        };
                        (res, msg)
                    }
                    Pending::Secret { wire, nonce, k, msg } => {
                        let mut m = vec![0u8; msg.len()];
                        (crypto_secretbox_open_easy(&mut m, &wire, &nonce, &syms[k]).map(|_| m).map_err(|e| format!("{e:?}")), msg)
                    }
                };
                match got {
                    Ok(m) if m == msg => {}
                    Ok(_) => return Err(format!("step {step} {op:?}: opened to a different message")),
                    Err(er) => return Err(format!("step {step} {op:?}: an authentic ciphertext was rejected after the preceding calls: {er}")),
                }
            }
        }
    }
    Ok(n)
}

pub fn hist_strat() -> impl proptest::strategy::Strategy<Value = HistCase> {
    use proptest::prelude::*;
    let len = prop_oneof![Just(0usize), Just(1usize), 1usize..80];
    let op = prop_oneof![
        4 => (0usize..3, 0usize..3, 0usize..5, len.clone()).prop_map(|(s, r, f, len)| HOp::Box { s, r, f, len }),
        3 => (0usize..3, len.clone(), any::<bool>()).prop_map(|(r, len, object)| HOp::Seal { r, len, object }),
        2 => (0usize..3, 0usize..3).prop_map(|(s, r)| HOp::Beforenm { s, r }),
        1 => (0usize..2, len).prop_map(|(k, len)| HOp::Secretbox { k, len }),
        3 => (0usize..8, 0usize..3).prop_map(|(i, v)| HOp::Open { i, v }),
    ];
    (any::<u64>(), proptest::collection::vec(op, 1..24)).prop_map(|(fill, mut ops)| {
        // open everything that is still pending at the end
        for i in 0..24 {
            ops.push(HOp::Open { i: 0, v: i });
        }
        HistCase { fill, ops }
    })
}

/// message containers of statically known size: `[u8; N]` and `&[u8; N]` (what `b"..."` literals are)
pub fn array_messages(seed: u64, ev: &mut Evidence) -> Result<(), Violation> {
    use dryoc::dryocbox::DryocBox;
    use dryoc::dryocsecretbox::DryocSecretBox;
    let mut f = Fill::new(seed, "C01:array-messages");
    let (key, nonce): ([u8; 32], [u8; 24]) = (f.arr(), f.arr());
    let (rpk, _rsk) = sodium::box_seed_keypair(&f.arr::<32>());
    let (_spk, ssk) = sodium::box_seed_keypair(&f.arr::<32>());
    macro_rules! one {
        ($n:expr) => {{
            let m: [u8; $n] = f.arr();
            let want = sodium::secretbox_easy(&m, &nonce, &key);
            let wantb = sodium::box_easy(&m, &nonce, &rpk, &ssk).ok_or_else(|| Violation::new("C01", "harness", "harness: box_easy", json!({})))?;
            let mref: &[u8; $n] = &m;
            let outs: Vec<(&str, Result<Result<Vec<u8>, String>, String>, &Vec<u8>)> = vec![
                ("DryocSecretBox::encrypt(message: &[u8; N])", no_panic(|| { let b: DryocSecretBox<StackByteArray<16>, Vec<u8>> = DryocSecretBox::encrypt(&m, &nonce, &key); Ok(b.to_vec()) }), &want),
                ("DryocSecretBox::encrypt(message: &&[u8; N])", no_panic(|| { let b: DryocSecretBox<StackByteArray<16>, Vec<u8>> = DryocSecretBox::encrypt(&mref, &nonce, &key); Ok(b.to_vec()) }), &want),
                ("DryocBox::encrypt(message: &[u8; N])", no_panic(|| { let b: DryocBox<StackByteArray<32>, StackByteArray<16>, Vec<u8>> = DryocBox::encrypt(&m, &nonce, &rpk, &ssk).map_err(|e| format!("{e:?}"))?; Ok(b.to_vec()) }), &wantb),
                ("DryocBox::encrypt(message: &&[u8; N])", no_panic(|| { let b: DryocBox<StackByteArray<32>, StackByteArray<16>, Vec<u8>> = DryocBox::encrypt(&mref, &nonce, &rpk, &ssk).map_err(|e| format!("{e:?}"))?; Ok(b.to_vec()) }), &wantb),
            ];
            for (what, got, want) in outs {
                ev.eval(1);
                ev.class("array-typed message containers ([u8; N], &[u8; N])");
                ev.nontrivial(fnv64(&[what.as_bytes(), &[$n as u8]]));
                match got {
                    Ok(Ok(g)) if &g == want => {}
                    other => return Err(Violation::new("C01", "array-message", format!("{what} with N = {}: {} instead of libsodium's {}", $n, match other { Ok(Ok(g)) => hx(&g), Ok(Err(e)) => format!("Err({e})"), Err(p) => format!("panic: {p}") }, hx(want)), json!({"seed": seed, "n": $n}))),
                }
            }
        }};
    }
    one!(0);
    one!(1);
    one!(5);
    one!(7);
    one!(8);
    one!(9);
    one!(16);
    one!(33);
    one!(100);
    Ok(())
}

pub fn run(ctx: &mut Ctx) -> Result<(), Violation> {
    let nightly_part = cfg!(feature = "nightly") && std::env::var("VERIF_PART").as_deref() == Ok("nightly");
    ctx.rule = "Call histories (proptest, shrinking): sequences of box (5 forms) / seal / beforenm / secretbox / open over a pool of 3 identities, so adjacent calls share one key half but not the other; every ciphertext must equal libsodium's and every pending ciphertext must open later in any order. Enumerated: every message length 0..=L plus {1023,1024,1025,4095,4096,4097,65535,65537} x K seeded (key, nonce, key pairs from seeds via libsodium, content class) x EVERY sealing form: classic secretbox/box/afternm in easy, detached, in-place; seal; object API encrypt/precalc_encrypt/seal with to_vec/to_bytes/into_vec/into_parts/from_bytes over array, StackByteArray, Vec, &[u8] containers (heap, locked, read-only locked containers in the nightly sub-run). Oracle: tag and ciphertext bytes == libsodium's for the same inputs; beforenm == libsodium; the resulting wire opens to the original under libsodium and under EVERY dryoc opener (20 forms); sealed boxes (ephemeral key chosen by dryoc): layout epk||box(msg, BLAKE2b-24(epk||rpk)) checked with the reference and opened by libsodium, libsodium-sealed opened by dryoc. Non-trivial: message length >= 1; distinct = hash(len, key, nonce, seeds, part).".into();
    ctx.assumptions = vec!["libsodium 1.0.18 is the byte-level reference".into(), "key pairs are derived from seeds by libsodium (honest pairs)".into()];
    if !nightly_part {
        array_messages(ctx.seed, &mut ctx.ev)?;
    }
    let l = ctx.tier.pick(600usize, 1100);
    let k = ctx.tier.pick(if nightly_part { 2usize } else { 6 }, if nightly_part { 4 } else { 24 });
    let mut lens: Vec<usize> = (0..=if nightly_part { l.min(ctx.tier.pick(320, 600)) } else { l }).collect();
    lens.extend_from_slice(&[1023, 1024, 1025, 4095, 4096, 4097]);
    if !nightly_part || ctx.tier == Tier::Thorough {
        lens.extend_from_slice(&[65535, 65537]);
    }
    let mut items = vec![];
    for &len in &lens {
        for fi in 0..k {
            items.push((len, fi));
        }
    }
    let seed = ctx.seed;
    let forms = std::sync::Mutex::new(Vec::<String>::new());
    ctx.par_each(&items, |_, &(len, fi), ev| {
        let mut f = Fill::new(seed, &format!("C01:{len}:{fi}"));
        let c = Case {
            msg: Hex(f.content(fi, len)),
            nonce: Hex(f.bytes(24)),
            key: Hex(f.content(if fi == 3 { 2 } else { 0 }, 32)),
            sender_seed: Hex(f.bytes(32)),
            recipient_seed: Hex(f.bytes(32)),
            nightly_only: nightly_part,
        };
        let mut seen = vec![];
        let n = check(&c, &mut seen).map_err(|m| Violation::new("C01", "aead-roundtrip", m, serde_json::to_value(&c).unwrap()))?;
        ev.eval(n);
        ev.class_n(if nightly_part { "forms-evaluated-nightly-containers" } else { "forms-evaluated" }, n);
        ev.class(&format!("len-mod-16={}", len % 16));
        if len >= 1 {
            ev.nontrivial(fnv64(&[&len.to_le_bytes(), &c.key, &c.nonce, &c.sender_seed, &[nightly_part as u8]]));
        }
        if [1usize, 17, 64].contains(&len) && fi == 0 {
            ev.sample(&format!("len{len}{}", if nightly_part { "-nightly" } else { "" }), || {
                json!({"len": len, "msg": hx(&c.msg[..len.min(32)]), "nonce": hx(&c.nonce), "key": hx(&c.key), "forms": n})
            });
        }
        let _ = &forms;
        Ok(())
    })?;
    if !nightly_part {
        let n = ctx.tier.pick(40_000u32, 2_000_000);
        let shards: Vec<u64> = (0..ctx.threads as u64).collect();
        let per = n / ctx.threads.max(1) as u32 + 1;
        ctx.par_each(&shards, |_, &sh, ev| {
            run_prop("C01", "aead-history", seed.wrapping_mul(2_147_483_659).wrapping_add(sh), per, hist_strat(), ev, |c, ev| {
                let n = check_history(c)?;
                ev.eval(n);
                ev.class_n("history-steps(3 identities, adjacent calls sharing one key half)", n);
                ev.nontrivial(fnv64(&[serde_json::to_string(c).unwrap().as_bytes()]));
                if c.ops.len() < 30 {
                    ev.sample("history", || json!({"ops": c.ops.iter().take(8).map(|o| format!("{o:?}")).collect::<Vec<_>>()}));
                }
                Ok(())
            })
        })?;
    }
    ctx.ev.extra.insert("message_lengths".into(), json!(format!("every 0..={} plus multi-KiB lengths", lens.iter().filter(|x| **x < 1000).max().unwrap_or(&0))));
    Ok(())
}

pub fn replay(v: &Violation) -> Result<(), String> {
    if v.kind == "array-message" {
        return array_messages(v.case["seed"].as_u64().unwrap_or(1), &mut Evidence::default()).map_err(|v| v.message);
    }
    if v.kind == "aead-history" {
        let c: HistCase = from_case(&v.case)?;
        return check_history(&c).map(|_| ());
    }
    let c: Case = from_case(&v.case)?;
    let mut seen = vec![];
    check(&c, &mut seen).map(|_| ())
}
