//! C10 — password-hash strings are self-describing and interoperate with libsodium.
use crate::core::*;
use crate::sodium;
use base64::Engine as _;
use dryoc::classic::crypto_pwhash::{crypto_pwhash_str, crypto_pwhash_str_needs_rehash, crypto_pwhash_str_verify};
use dryoc::pwhash::{Config, PwHash};
use proptest::prelude::*;
use serde::{Deserialize, Serialize};
use serde_json::json;

#[derive(Debug, Clone, Copy, PartialEq, Eq, Serialize, Deserialize)]
pub enum Producer {
    DryocStr,
    DryocObject,
    SodiumStrId,
    SodiumStrI,
    SodiumEncoded,
}

#[derive(Debug, Clone, Serialize, Deserialize)]
pub struct Case {
    pub producer: Producer,
    pub password: Hex,
    pub ops: u64,
    /// memlimit in bytes
    pub mem: usize,
    pub salt_len: usize,
    pub hash_len: usize,
    /// 1 = argon2i, 2 = argon2id (SodiumEncoded only; others are fixed by the producer)
    pub alg: i32,
    pub fill: u64,
    /// needs-rehash queries (ops, mem)
    pub queries: Vec<(u64, usize)>,
}

pub struct Parsed {
    pub alg: i32,
    pub m: u32,
    pub t: u32,
    pub salt: Vec<u8>,
    pub hash: Vec<u8>,
}

/// the harness's own strict parser of the PHC string layout libsodium emits
pub fn parse(s: &str) -> Result<Parsed, String> {
    let parts: Vec<&str> = s.split('$').collect();
    if parts.len() != 6 || !parts[0].is_empty() {
        return Err(format!("not 5 '$'-separated fields: {s}"));
    }
    let alg = match parts[1] {
        "argon2i" => 1,
        "argon2id" => 2,
        o => return Err(format!("algorithm field {o}")),
    };
    if parts[2] != "v=19" {
        return Err(format!("version field {}", parts[2]));
    }
    let kv: Vec<&str> = parts[3].split(',').collect();
    if kv.len() != 3 || !kv[0].starts_with("m=") || !kv[1].starts_with("t=") || kv[2] != "p=1" {
        return Err(format!("parameter field {}", parts[3]));
    }
    let m: u32 = kv[0][2..].parse().map_err(|_| "m")?;
    let t: u32 = kv[1][2..].parse().map_err(|_| "t")?;
    let e = base64::engine::general_purpose::STANDARD_NO_PAD;
    let salt = e.decode(parts[4]).map_err(|e| format!("salt base64: {e}"))?;
    let hash = e.decode(parts[5]).map_err(|e| format!("hash base64: {e}"))?;
    Ok(Parsed { alg, m, t, salt, hash })
}

fn produce(c: &Case) -> Result<String, String> {
    let mut f = Fill::new(c.fill, "C10");
    match c.producer {
        Producer::DryocStr => crypto_pwhash_str(&c.password, c.ops, c.mem).map_err(|e| format!("crypto_pwhash_str: {e:?}")),
        Producer::DryocObject => {
            let cfg = match (c.salt_len + c.hash_len) % 3 {
                0 => Config::interactive().with_opslimit(c.ops).with_memlimit(c.mem).with_salt_length(c.salt_len).with_hash_length(c.hash_len),
                1 => Config::moderate().with_hash_length(c.hash_len).with_salt_length(c.salt_len).with_memlimit(c.mem).with_opslimit(c.ops),
                _ => Config::sensitive().with_memlimit(c.mem).with_hash_length(c.hash_len).with_opslimit(c.ops).with_salt_length(c.salt_len),
            };
            let h = PwHash::<Vec<u8>, Vec<u8>>::hash(&c.password.0, cfg).map_err(|e| format!("PwHash::hash: {e:?}"))?;
            Ok(h.to_string())
        }
        Producer::SodiumStrId => sodium::pwhash_str(&c.password, c.ops, c.mem, sodium::ALG_ARGON2ID13).ok_or("harness: sodium pwhash_str".into()),
        Producer::SodiumStrI => sodium::pwhash_str(&c.password, c.ops.max(3), c.mem, sodium::ALG_ARGON2I13).ok_or("harness: sodium pwhash_str_alg".into()),
        Producer::SodiumEncoded => {
            let salt = f.bytes(c.salt_len);
            sodium::argon2_encoded(c.alg, c.ops as u32, (c.mem / 1024) as u32, &c.password, &salt, c.hash_len).ok_or("harness: sodium argon2_encoded".into())
        }
    }
}

fn wrong_passwords(pw: &[u8]) -> Vec<Vec<u8>> {
    let mut v = vec![];
    let mut a = pw.to_vec();
    a.push(b'x');
    v.push(a);
    if !pw.is_empty() {
        let mut b = pw.to_vec();
        b[0] ^= 0x20;
        v.push(b);
        v.push(vec![]);
    }
    v
}

pub fn check(c: &Case) -> Result<(), String> {
    let s = produce(c)?;
    let p = parse(&s).map_err(|e| format!("{:?} produced a string the strict parser rejects: {e}", c.producer))?;
    let from_dryoc = matches!(c.producer, Producer::DryocStr | Producer::DryocObject);
    let eff_ops = if c.producer == Producer::SodiumStrI { c.ops.max(3) } else { c.ops };
    // (a) self-description: the fields are the ones used, and they reproduce the hash
    if p.t as u64 != eff_ops || p.m as usize != c.mem / 1024 {
        return Err(format!("{:?}: string encodes m={},t={} but the costs used were m={},t={}: {s}", c.producer, p.m, p.t, c.mem / 1024, eff_ops));
    }
    if from_dryoc {
        let want_alg = 2;
        if p.alg != want_alg {
            return Err(format!("dryoc string names algorithm {} but Argon2id was used: {s}", p.alg));
        }
        let (sl, hl) = if c.producer == Producer::DryocStr { (16, 32) } else { (c.salt_len, c.hash_len) };
        if p.salt.len() != sl || p.hash.len() != hl {
            return Err(format!("dryoc string has salt/hash lengths {}/{} but {sl}/{hl} were requested: {s}", p.salt.len(), p.hash.len()));
        }
    }
    let recomputed = sodium::argon2_raw(p.alg, p.t, p.m, &c.password, &p.salt, p.hash.len()).ok_or("harness: reference refused the encoded parameters")?;
    if recomputed != p.hash {
        return Err(format!("{:?}: recomputing Argon2 from the encoded fields does not reproduce the hash field: {s}", c.producer));
    }
    // (b) interop in both directions
    let wrongs = wrong_passwords(&c.password);
    if s.len() < 128 {
        if !sodium::pwhash_str_verify(&s, &c.password) {
            return Err(format!("libsodium crypto_pwhash_str_verify rejects the right password for: {s}"));
        }
        for w in &wrongs {
            if sodium::pwhash_str_verify(&s, w) {
                return Err(format!("libsodium accepts a wrong password for: {s}"));
            }
        }
    }
    if sodium::argon2_verify_str(&s, &c.password, p.alg) != Some(true) {
        return Err(format!("libsodium argon2_verify rejects the right password for: {s}"));
    }
    let obj = PwHash::<Vec<u8>, Vec<u8>>::from_string(&s).map_err(|e| format!("PwHash::from_string rejects a valid string {s}: {e:?}"))?;
    obj.verify(&c.password.0).map_err(|_| format!("PwHash::from_string(..).verify rejects the right password for: {s}"))?;
    for w in &wrongs {
        if obj.verify(w).is_ok() {
            return Err(format!("PwHash::verify accepts a wrong password for: {s}"));
        }
    }
    if p.hash.len() == 32 {
        crypto_pwhash_str_verify(&s, &c.password).map_err(|_| format!("crypto_pwhash_str_verify rejects the right password for: {s}"))?;
        for w in &wrongs {
            if crypto_pwhash_str_verify(&s, w).is_ok() {
                return Err(format!("crypto_pwhash_str_verify accepts a wrong password for: {s}"));
            }
        }
    }
    // (c) re-encoding identity
    let re = obj.to_string();
    if re != s {
        return Err(format!("PwHash::from_string(s).to_string() != s:\n   s = {s}\n  re = {re}"));
    }
    // (d) needs-rehash
    for &(ops, mem) in &c.queries {
        let want = ops != p.t as u64 || (mem / 1024) as u64 != p.m as u64;
        let got = crypto_pwhash_str_needs_rehash(&s, ops, mem).map_err(|e| format!("needs_rehash errored on a valid string: {e:?}"))?;
        if s.len() < 128 {
            let r = sodium::pwhash_str_needs_rehash(&s, ops, mem);
            if r < 0 || (r == 1) != want {
                return Err(format!("harness: libsodium needs_rehash = {r}, expected {want} for {s} ({ops},{mem})"));
            }
        }
        if got != want {
            return Err(format!("crypto_pwhash_str_needs_rehash({s}, ops={ops}, mem={mem}) = {got}, expected {want} (string has t={}, m={})", p.t, p.m));
        }
    }
    Ok(())
}

pub fn case_strat() -> impl Strategy<Value = Case> {
    let producer = prop_oneof![
        2 => Just(Producer::DryocStr), 3 => Just(Producer::DryocObject), 2 => Just(Producer::SodiumStrId), 2 => Just(Producer::SodiumStrI), 4 => Just(Producer::SodiumEncoded),
    ];
    (producer, 0usize..=128, 1u64..=4, 8usize..=64, 0usize..1024, 8usize..=64, 16usize..=128, 1i32..=2, any::<u64>(), proptest::collection::vec((0u8..6, 0u64..4, 0usize..2048), 1..5)).prop_map(
        |(producer, pwlen, ops, mkib, rem, salt_len, hash_len, alg, fill, qs)| {
            let mut f = Fill::new(fill, "C10:pw");
            let mem = mkib * 1024 + if rem % 3 == 0 { 0 } else { rem };
            let ops_eff = if producer == Producer::SodiumStrI { ops.max(3) } else { ops };
            let queries = qs
                .into_iter()
                .map(|(kind, dops, dmem)| match kind {
                    0 => (ops_eff, mem),
                    1 => (ops_eff, (mem / 1024) * 1024 + dmem % 1024),
                    2 => (ops_eff + 1 + dops, mem),
                    3 => (ops_eff, mem + 1024 * (1 + dmem % 5)),
                    4 => (ops_eff, (mem / 1024) * 1024 - 1),
                    _ => (1 + dops, 8192 + dmem * 7),
                })
                .collect();
            let (salt_len, hash_len) = match producer {
                Producer::DryocObject | Producer::SodiumEncoded => (salt_len, hash_len),
                _ => (16, 32),
            };
            Case { producer, password: Hex(f.bytes(pwlen)), ops, mem, salt_len, hash_len, alg, fill, queries }
        },
    )
}

/// Valid strings whose cost fields are edited to LARGE in-range values. Nothing is hashed: parsing, re-encoding
/// and needs-rehash must still be exact (and must not overflow) for every cost a string may carry.
pub fn check_edited_costs(base: &str, m: u64, t: u64) -> Result<(), String> {
    let p = parse(base)?;
    let s = base.replacen(&format!("m={},t={}", p.m, p.t), &format!("m={m},t={t}"), 1);
    let obj = no_panic(|| PwHash::<Vec<u8>, Vec<u8>>::from_string(&s)).map_err(|e| format!("PwHash::from_string panicked on {s}: {e}"))?.map_err(|e| format!("PwHash::from_string rejects a well-formed string with m={m},t={t}: {e:?}"))?;
    let re = no_panic(|| obj.to_string()).map_err(|e| format!("to_string panicked: {e}"))?;
    if re != s {
        return Err(format!("from_string(s).to_string() != s for large costs:\n   s = {s}\n  re = {re}"));
    }
    let mem = (m as usize) * 1024;
    for (ops, memq, want) in [(t, mem, false), (t, mem + 1023, false), (t.wrapping_add(1).max(1), mem, true), (t, mem - 1024, true), (t, mem - 1, true)] {
        if ops > 4294967295 || memq > 4398046510080 + 1023 {
            continue;
        }
        let got = no_panic(|| crypto_pwhash_str_needs_rehash(&s, ops, memq)).map_err(|e| format!("needs_rehash panicked on {s}: {e}"))?.map_err(|e| format!("needs_rehash errored on a well-formed string: {e:?}"))?;
        if s.len() < 128 {
            let r = sodium::pwhash_str_needs_rehash(&s, ops, memq);
            if r < 0 || (r == 1) != want {
                return Err(format!("harness: libsodium needs_rehash({s}, {ops}, {memq}) = {r}, expected {want}"));
            }
        }
        if got != want {
            return Err(format!("crypto_pwhash_str_needs_rehash({s}, ops={ops}, mem={memq}) = {got}, expected {want}"));
        }
    }
    Ok(())
}

pub fn run(ctx: &mut Ctx) -> Result<(), Violation> {
    {
        let bases = [
            sodium::pwhash_str(b"pw", 1, 8192, sodium::ALG_ARGON2ID13).unwrap_or_default(),
            sodium::pwhash_str(b"pw", 3, 8192, sodium::ALG_ARGON2I13).unwrap_or_default(),
            sodium::argon2_encoded(sodium::ALG_ARGON2ID13, 2, 9, b"pw", &[3u8; 9], 20).unwrap_or_default(),
        ];
        for b in &bases {
            for m in [65u64, 1 << 20, (1 << 22) - 1, 1 << 22, (1 << 22) + 1, 1 << 31, (1 << 32) - 2, (1 << 32) - 1] {
                for t in [1u64, 7, (1 << 31) + 1, (1 << 32) - 1] {
                    ctx.ev.eval(1);
                    ctx.ev.class("edited large costs: parse / re-encode / needs-rehash only");
                    ctx.ev.nontrivial(fnv64(&[b.as_bytes(), &m.to_le_bytes(), &t.to_le_bytes()]));
                    check_edited_costs(b, m, t).map_err(|msg| Violation::new("C10", "pwhash-edited-costs", msg, json!({"base": b, "m": m, "t": t})))?;
                }
            }
        }
    }
    ctx.rule = "proptest cases (with shrinking): password 0..=128 bytes, t 1..=4, memlimit 8..=64 KiB incl. values that are not a multiple of 1024, producer in {dryoc crypto_pwhash_str, dryoc PwHash::hash(config with salt 8..=64, hash 16..=128).to_string(), libsodium crypto_pwhash_str (argon2id), libsodium crypto_pwhash_str_alg (argon2i), libsodium internal argon2{i,id}_hash_encoded (salt 8..=64, hash 16..=128)}, 1..4 needs-rehash queries each (equal costs, memlimit within the same KiB, t differs only, m differs only, one byte below the KiB, unrelated). Plus a deterministic pass with t in {255..258, 511..513, 1025} at 8 KiB for every producer. Oracle: (a) strict harness parser decodes the string, fields equal the costs/lengths used, and Argon2 recomputed by the reference from exactly those fields equals the hash field; (b) libsodium crypto_pwhash_str_verify / argon2_verify accept the right password and reject wrong ones, dryoc crypto_pwhash_str_verify and PwHash::from_string(..).verify likewise; (c) from_string(s).to_string() == s; (d) needs_rehash == (ops != t or mem/1024 != m) == libsodium's answer. Non-trivial: string from libsodium, or Argon2i, or non-default salt/hash length, or a query where exactly one cost differs; distinct = hash(case).".into();
    ctx.assumptions = vec!["libsodium's encoder/verifier (public and internal) is the interop reference".into(), "cost parameters kept small (m <= 64 KiB, t <= 4)".into()];
    let seed = ctx.seed;
    // large pass counts at minimal memory (neighbourhoods of 2^8, 2^9, 2^10): strings made by either side with
    // t there must still interoperate
    {
        let mut big: Vec<Case> = vec![];
        for (i, t) in [255u64, 256, 257, 258, 511, 512, 513, 1025].into_iter().enumerate() {
            for producer in [Producer::DryocStr, Producer::DryocObject, Producer::SodiumStrId, Producer::SodiumStrI, Producer::SodiumEncoded] {
                for alg in 1..=2 {
                    if alg == 1 && !matches!(producer, Producer::SodiumEncoded) {
                        continue;
                    }
                    big.push(Case { producer, password: Hex(vec![b'p'; i]), ops: t, mem: 8192, salt_len: 16, hash_len: 32, alg, fill: i as u64, queries: vec![(t, 8192), (t + 1, 8192), (t - 1, 8192), (t % 256, 8192)] });
                }
            }
        }
        ctx.par_each(&big, |_, c, ev| {
            ev.eval(1);
            ev.class("large pass count (t >= 255) at minimal memory");
            ev.nontrivial(fnv64(&[serde_json::to_string(c).unwrap().as_bytes()]));
            check(c).map_err(|m| Violation::new("C10", "pwhash-string", m, serde_json::to_value(c).unwrap()))
        })?;
    }
    let n = ctx.tier.pick(8000u32, 400_000);
    let shards: Vec<u64> = (0..ctx.threads as u64).collect();
    let per = n / ctx.threads.max(1) as u32 + 1;
    ctx.par_each(&shards, |_, &sh, ev| {
        run_prop("C10", "pwhash-string", seed.wrapping_mul(4099).wrapping_add(sh), per, case_strat(), ev, |c, ev| {
            ev.eval(1);
            ev.class(&format!("{:?}", c.producer));
            let nondefault = c.salt_len != 16 || c.hash_len != 32;
            let one_differs = c.queries.iter().any(|&(o, m)| (o != c.ops) != (m / 1024 != c.mem / 1024));
            if nondefault {
                ev.class("non-default salt/hash length");
            }
            if one_differs {
                ev.class("query: exactly one cost differs");
            }
            if !matches!(c.producer, Producer::DryocStr) || nondefault || one_differs {
                ev.nontrivial(fnv64(&[serde_json::to_string(c).unwrap().as_bytes()]));
            }
            ev.sample(&format!("{:?}", c.producer), || json!({"producer": format!("{:?}", c.producer), "string": produce(c).unwrap_or_default(), "queries": c.queries}));
            check(c)
        })
    })?;
    Ok(())
}

pub fn replay(v: &Violation) -> Result<(), String> {
    if v.kind == "pwhash-edited-costs" {
        return check_edited_costs(v.case["base"].as_str().unwrap_or(""), v.case["m"].as_u64().unwrap_or(8), v.case["t"].as_u64().unwrap_or(1));
    }
    let c: Case = from_case(&v.case)?;
    check(&c)
}
