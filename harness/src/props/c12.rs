//! C12 — key derivation matches libsodium for every subkey length, id and context.
use crate::core::*;
use crate::{models, sodium};
use dryoc::classic::crypto_kdf::crypto_kdf_derive_from_key;
use dryoc::kdf::Kdf;
use dryoc::types::StackByteArray;
use serde::{Deserialize, Serialize};
use serde_json::json;

#[derive(Debug, Clone, Serialize, Deserialize)]
pub struct Case {
    pub key: Hex,
    pub ctx: Hex,
    pub id: u64,
    pub len: usize,
}

fn dry(c: &Case) -> Result<Option<Vec<u8>>, String> {
    let key: [u8; 32] = c.key.0.clone().try_into().map_err(|_| "key len")?;
    let ctx: [u8; 8] = c.ctx.0.clone().try_into().map_err(|_| "ctx len")?;
    let mut out = vec![0xa5u8; c.len];
    match no_panic(|| crypto_kdf_derive_from_key(&mut out, c.id, &ctx, &key)) {
        Ok(Ok(())) => Ok(Some(out)),
        Ok(Err(_)) => Ok(None),
        Err(p) => Err(format!("crypto_kdf_derive_from_key panicked: {p}")),
    }
}

pub fn check(c: &Case) -> Result<(), String> {
    let key: [u8; 32] = c.key.0.clone().try_into().map_err(|_| "key len")?;
    let ctx: [u8; 8] = c.ctx.0.clone().try_into().map_err(|_| "ctx len")?;
    let d = dry(c)?;
    let accepted = (16..=64).contains(&c.len);
    let s = if c.len == 0 { None } else { sodium::kdf_derive(c.len, c.id, &ctx, &key) };
    if accepted != s.is_some() {
        return Err(format!("harness: libsodium acceptance {} for len {}", s.is_some(), c.len));
    }
    match (&d, accepted) {
        (Some(_), false) => return Err(format!("subkey length {} accepted (must be rejected)", c.len)),
        (None, true) => return Err(format!("subkey length {} rejected (must be accepted)", c.len)),
        (None, false) => return Ok(()),
        _ => {}
    }
    let d = d.unwrap();
    let s = s.unwrap();
    let mut salt = [0u8; 16];
    salt[..8].copy_from_slice(&c.id.to_le_bytes());
    let mut pers = [0u8; 16];
    pers[..8].copy_from_slice(&ctx);
    let m = models::blake2b(c.len, &key, &salt, &pers, &[]);
    if s != m {
        return Err(format!("harness: libsodium {} != model {}", hx(&s), hx(&m)));
    }
    if d != s {
        return Err(format!(
            "subkey(len={}, id={}) = {} but libsodium/BLAKE2b model give {}",
            c.len,
            c.id,
            hx(&d),
            hx(&s)
        ));
    }
    if c.len == 32 {
        // object API (fixed 32-byte subkeys), several containers
        let kdf = Kdf::<StackByteArray<32>, StackByteArray<8>>::from_parts(key.into(), ctx.into());
        let a: StackByteArray<32> = kdf.derive_subkey(c.id).map_err(|e| format!("Kdf::derive_subkey: {e:?}"))?;
        let b: Vec<u8> = kdf.derive_subkey_to_vec(c.id).map_err(|e| format!("Kdf::derive_subkey_to_vec: {e:?}"))?;
        let kdf2 = Kdf::<Vec<u8>, [u8; 8]>::from_parts(key.to_vec(), ctx);
        let c2: [u8; 32] = kdf2.derive_subkey(c.id).map_err(|e| format!("Kdf<Vec>::derive_subkey: {e:?}"))?;
        if a.as_ref() as &[u8] != s.as_slice() || b != s || c2.as_slice() != s.as_slice() {
            return Err("object API Kdf::derive_subkey differs from libsodium".into());
        }
        #[cfg(feature = "nightly")]
        {
            use dryoc::protected::*;
            let k = HeapByteArray::<32>::from_slice_into_locked(&key).map_err(|e| format!("{e:?}"))?;
            let cx = HeapByteArray::<8>::from_slice_into_locked(&ctx).map_err(|e| format!("{e:?}"))?;
            let kdf3 = Kdf::from_parts(k, cx);
            let d3: Locked<HeapByteArray<32>> = kdf3.derive_subkey(c.id).map_err(|e| format!("{e:?}"))?;
            if d3.as_slice() != s.as_slice() {
                return Err("locked Kdf::derive_subkey differs from libsodium".into());
            }
        }
    }
    // metamorphic distinctness: changing exactly one of id / context / length changes the subkey
    let mut c_id = c.clone();
    c_id.id = c.id.wrapping_add(1);
    let mut c_ctx = c.clone();
    c_ctx.ctx.0[7] ^= 1;
    for (what, other) in [("id", &c_id), ("context", &c_ctx)] {
        if let Some(o) = dry(other)? {
            if o == d {
                return Err(format!("changing only the {what} left the subkey unchanged"));
            }
        }
    }
    if c.len < 64 {
        let mut c_len = c.clone();
        c_len.len = c.len + 1;
        if let Some(o) = dry(&c_len)? {
            if o[..c.len] == d[..] {
                return Err(format!("subkey of length {} is a prefix of the length-{} subkey", c.len, c.len + 1));
            }
        }
    }
    // the same derivation again, now AFTER its neighbours (other id, other context, longer length) were derived on
    // this thread: the result must not depend on the call history
    match dry(c)? {
        Some(again) if again == d => {}
        other => return Err(format!("subkey(len={}, id={}) derived again after deriving its neighbours (id+1, context, length {}) on the same thread = {:?}, first time {}", c.len, c.id, c.len + 1, other.map(|o| hx(&o)), hx(&d))),
    }
    Ok(())
}

pub fn run(ctx: &mut Ctx) -> Result<(), Violation> {
    ctx.rule = "enumerated: every length 0..=80 (and, with 2 keys, every length 81..=1100 and 2^16, 2^17 + 0..=80) x fixed id table {0,1,2,255,256,2^32-1,2^32,2^63-1,2^63,2^64-1}+2 seeded ids x K seeded keys/contexts (random, zero, 0xff classes); plus proptest-random (key,ctx,id,len) cases. Oracle: dryoc == libsodium crypto_kdf_derive_from_key == RFC 7693 BLAKE2b model with salt/personal; rejected lengths Err in both; metamorphic distinctness. Non-trivial: accepted length != 32 or id >= 2^32; distinct = hash(key,ctx,id,len).".into();
    ctx.assumptions = vec![
        "libsodium 1.0.18 (libsodium-sys static build) is a correct reference".into(),
        "BLAKE2b model pinned by RFC 7693 'abc' vector at start-up".into(),
    ];
    let nkeys = ctx.tier.pick(64usize, 512);
    let mut f = ctx.fill("ids");
    let mut ids: Vec<u64> = vec![0, 1, 2, 255, 256, u32::MAX as u64, 1 << 32, (1 << 63) - 1, 1 << 63, u64::MAX];
    ids.push(f.next_u64());
    ids.push(f.next_u64());
    let mut items = vec![];
    for len in 0..=80usize {
        for k in 0..nkeys {
            items.push((len, k));
        }
    }
    // "rejects other lengths": every length up to 1100 and the neighbourhoods of 2^8 and 2^16 multiples
    // plus an accepted length (a length check done on a narrowed integer would accept these)
    let mut far: Vec<usize> = (81..=1100usize).collect();
    for base in [1usize << 16, 1 << 17] {
        far.extend((base..=base + 80).step_by(1));
    }
    for len in far {
        for k in 0..2usize {
            items.push((len, k));
        }
    }
    let seed = ctx.seed;
    let idsr = &ids;
    ctx.par_each(&items, |_, &(len, k), ev| {
        let mut f = Fill::new(seed, &format!("C12:{len}:{k}"));
        let key = f.content(k, 32);
        let cx = f.content(k / 5 + k, 8);
        for &id in idsr {
            let c = Case { key: Hex(key.clone()), ctx: Hex(cx.clone()), id, len };
            ev.eval(1);
            let acc = (16..=64).contains(&len);
            ev.class(if acc { "accepted-length" } else { "rejected-length" });
            if acc && (len != 32 || id >= 1 << 32) {
                ev.nontrivial(fnv64(&[&key, &cx, &id.to_le_bytes(), &[len as u8]]));
            }
            ev.sample(&format!("len{}-{}", if acc { "ok" } else { "rej" }, len % 3), || {
                json!({"key": hx(&key), "ctx": hx(&cx), "id": id, "len": len})
            });
            check(&c).map_err(|m| Violation::new("C12", "kdf", m, serde_json::to_value(&c).unwrap()))?;
        }
        Ok(())
    })?;
    // random cases with shrinking
    use proptest::prelude::*;
    let strat = (
        proptest::collection::vec(any::<u8>(), 32),
        proptest::collection::vec(any::<u8>(), 8),
        prop_oneof![any::<u64>(), (0u64..64).prop_map(|b| 1u64 << b), (0u64..64).prop_map(|b| (1u64 << b).wrapping_sub(1))],
        0usize..=80,
    )
        .prop_map(|(key, cx, id, len)| Case { key: Hex(key), ctx: Hex(cx), id, len });
    let n = ctx.tier.pick(100_000u32, 40_000_000);
    let seed = ctx.seed;
    run_prop("C12", "kdf", seed, n, strat, &mut ctx.ev, |c, ev| {
        ev.eval(1);
        ev.class("random");
        if (16..=64).contains(&c.len) && (c.len != 32 || c.id >= 1 << 32) {
            ev.nontrivial(fnv64(&[&c.key, &c.ctx, &c.id.to_le_bytes(), &[c.len as u8]]));
        }
        check(c)
    })?;
    ctx.ev.extra.insert("lengths_enumerated".into(), json!("0..=1100 (complete) and {2^16, 2^17} + 0..=80"));
    Ok(())
}

pub fn replay(v: &Violation) -> Result<(), String> {
    let c: Case = from_case(&v.case)?;
    check(&c)
}
