//! C09 — Argon2 password hashing equals libsodium / RFC 9106 for every parameter set.
use crate::alloc_track::tracked;
use crate::core::*;
use crate::sodium;
use dryoc::classic::crypto_pwhash::{crypto_pwhash, PasswordHashAlgorithm};
use dryoc::pwhash::{Config, PwHash};
use proptest::prelude::*;
use serde::{Deserialize, Serialize};
use serde_json::json;

#[derive(Debug, Clone, Serialize, Deserialize)]
pub struct Case {
    /// 1 = Argon2i, 2 = Argon2id
    pub alg: i32,
    pub outlen: usize,
    pub password: Hex,
    pub salt: Hex,
    pub ops: u64,
    pub mem: usize,
}

const MEMLIMIT_MAX: usize = 4398046510080;

pub fn in_range(c: &Case) -> bool {
    c.outlen >= 16 && c.salt.len() >= 8 && c.ops >= 1 && c.ops <= 4294967295 && c.mem >= 8192 && c.mem <= MEMLIMIT_MAX
}

fn alg(a: i32) -> PasswordHashAlgorithm {
    if a == 1 {
        PasswordHashAlgorithm::Argon2i13
    } else {
        PasswordHashAlgorithm::Argon2id13
    }
}

pub fn reference(c: &Case) -> Result<Vec<u8>, String> {
    let raw = sodium::argon2_raw(c.alg, c.ops as u32, (c.mem / 1024) as u32, &c.password, &c.salt, c.outlen).ok_or("harness: libsodium internal argon2 refused in-range parameters")?;
    if c.salt.len() == 16 && (c.alg == 2 || c.ops >= 3) {
        let public = sodium::pwhash(c.outlen, &c.password, &c.salt.0.clone().try_into().unwrap(), c.ops, c.mem, c.alg).ok_or("harness: libsodium crypto_pwhash refused")?;
        if public != raw {
            return Err("harness: libsodium public crypto_pwhash != internal argon2 raw".into());
        }
    }
    Ok(raw)
}

pub fn check(c: &Case) -> Result<(), String> {
    let mut out = vec![0x5au8; c.outlen];
    if !in_range(c) {
        let js = "{}";
        let (r, max_alloc) = tracked(js, || no_panic(|| crypto_pwhash(&mut out, &c.password, &c.salt, c.ops, c.mem, alg(c.alg))));
        let r = r.map_err(|p| format!("crypto_pwhash panicked on out-of-range parameters: {p}"))?;
        if r.is_ok() {
            return Err(format!("crypto_pwhash accepted out-of-range parameters (outlen {}, salt len {}, ops {}, mem {})", c.outlen, c.salt.len(), c.ops, c.mem));
        }
        if max_alloc > 1 << 20 {
            return Err(format!("crypto_pwhash allocated {max_alloc} bytes before rejecting out-of-range parameters"));
        }
        return Ok(());
    }
    let want = reference(c)?;
    crypto_pwhash(&mut out, &c.password, &c.salt, c.ops, c.mem, alg(c.alg)).map_err(|e| format!("crypto_pwhash rejected in-range parameters: {e:?}"))?;
    if out != want {
        return Err(format!(
            "crypto_pwhash(alg={}, outlen={}, pwlen={}, saltlen={}, t={}, m={} KiB) = {}… but libsodium = {}…",
            if c.alg == 1 { "argon2i" } else { "argon2id" },
            c.outlen,
            c.password.len(),
            c.salt.len(),
            c.ops,
            c.mem / 1024,
            hx(&out[..out.len().min(24)]),
            hx(&want[..want.len().min(24)])
        ));
    }
    if c.alg == 2 && c.outlen <= 256 {
        // object API: hash_with_salt + verify
        let cfg = match (c.outlen + c.salt.len()) % 3 {
            0 => Config::interactive().with_opslimit(c.ops).with_memlimit(c.mem).with_hash_length(c.outlen).with_salt_length(c.salt.len()),
            1 => Config::moderate().with_salt_length(c.salt.len()).with_hash_length(c.outlen).with_memlimit(c.mem).with_opslimit(c.ops),
            _ => Config::sensitive().with_hash_length(c.outlen).with_memlimit(c.mem).with_opslimit(c.ops).with_salt_length(c.salt.len()),
        };
        let h = PwHash::<Vec<u8>, Vec<u8>>::hash_with_salt(&c.password.0, c.salt.0.clone(), cfg).map_err(|e| format!("hash_with_salt: {e:?}"))?;
        let (hash, _, _) = h.clone().into_parts();
        if hash != want {
            return Err("PwHash::hash_with_salt differs from libsodium".into());
        }
        h.verify(&c.password.0).map_err(|_| "PwHash::verify rejected the password that produced the hash")?;
        // a caller-supplied salt whose length differs from the configured salt_length (which only sizes RANDOM
        // salts): if the call succeeds, the hash must be the hash under the WHOLE supplied salt
        if c.salt.len() != 16 {
            let cfg2 = Config::interactive().with_opslimit(c.ops).with_memlimit(c.mem).with_hash_length(c.outlen);
            if let Ok(Ok(h2)) = no_panic(|| PwHash::<Vec<u8>, Vec<u8>>::hash_with_salt(&c.password.0, c.salt.0.clone(), cfg2)) {
                let (hash2, salt2, _) = h2.clone().into_parts();
                if hash2 != want || salt2 != c.salt.0 {
                    return Err(format!("PwHash::hash_with_salt with a {}-byte salt and a config whose salt_length is 16 returned a hash that is not the Argon2 hash under the supplied salt (stored salt has {} bytes)", c.salt.len(), salt2.len()));
                }
                h2.verify(&c.password.0).map_err(|_| "PwHash::verify rejected the password (salt length differs from the config's)")?;
            }
        }
        let mut others: Vec<Vec<u8>> = vec![];
        let mut p2 = c.password.0.clone();
        if !p2.is_empty() {
            p2[0] ^= 1;
            others.push(p2);
            others.push(c.password[..c.password.len() - 1].to_vec());
            others.push(vec![]);
        }
        let mut p3 = c.password.0.clone();
        p3.push(0);
        others.push(p3);
        for o in &others {
            if *o != c.password.0 && h.verify(o).is_ok() {
                return Err(format!("PwHash::verify accepted a different password ({} vs {})", hx(o), hx(&c.password)));
            }
        }
        // objects assembled from parts (or deserialised) whose stored hash is shorter than the configured length
        // must still reject every other password: no prefix / empty-hash acceptance
        if c.outlen <= 64 {
            let (hash, salt, cfg) = h.clone().into_parts();
            for k in [0usize, 1, 2, hash.len() / 2] {
                let short = PwHash::<Vec<u8>, Vec<u8>>::from_parts(hash[..k].to_vec(), salt.clone(), cfg.clone());
                for o in &others {
                    if *o != c.password.0 && short.verify(o).is_ok() {
                        return Err(format!("PwHash::verify accepted a wrong password against a stored hash truncated to {k} bytes"));
                    }
                }
            }
        }
    }
    Ok(())
}

fn nontrivial(c: &Case) -> bool {
    in_range(c) && (c.outlen != 32 || (c.mem / 1024) % 4 != 0 || c.ops >= 2 || c.salt.len() != 16)
}

pub fn case_strat(max_m_kib: usize) -> impl Strategy<Value = Case> {
    let outlen = prop_oneof![4 => 16usize..=160, 1 => 161usize..=1100, 1 => Just(32usize), 1 => Just(64usize), 1 => Just(65usize)];
    let m = prop_oneof![6 => 8usize..=64, 1 => Just(100usize), 1 => Just(255usize), 1 => Just(256usize), 1 => Just(1023usize), 1 => Just(1024usize)]
        .prop_map(move |m| m.min(max_m_kib));
    (1i32..=2, outlen, 0usize..=300, prop_oneof![2 => Just(16usize), 2 => 8usize..=64], 1u64..=6, m, 0usize..1024, any::<u64>()).prop_map(
        |(alg, outlen, pwlen, saltlen, ops, m, extra, fill)| {
            let mut f = Fill::new(fill, "C09");
            Case { alg, outlen, password: Hex(f.bytes(pwlen)), salt: Hex(f.bytes(saltlen)), ops, mem: m * 1024 + extra }
        },
    )
}

pub fn run(ctx: &mut Ctx) -> Result<(), Violation> {
    ctx.rule = "Enumerated: every output length 16..=160 (one parameter set each), every memory size 8..=64 KiB (non-multiples of 4 included) x t in 1..=3 x {argon2i, argon2id}, every pass count 4..=40 and 2^k-1..2^k+2 for k=6..10 (2^16 in thorough) at minimal memory, password lengths 0..=300 stepped, salt lengths 8..=64; larger {100,255,256,1023,1024,4096 KiB}; out-of-range table (outlen 0..=15, salt 0..=7, ops 0 and 2^32, mem < 8192 and > max) which must Err without allocating; plus proptest-random (alg, outlen<=1100, pwlen<=300, salt 8..=64, t 1..=6, m, sub-KiB remainder) with shrinking. Oracle: libsodium's internal argon2{i,id}_hash_raw for every accepted set (cross-checked against the public crypto_pwhash for 16-byte salts), RFC 9106 pure-Python implementation on a sample in the thorough tier; PwHash::hash_with_salt/verify accepts the generating password and rejects one-bit / length / empty variants. Non-trivial: outlen != 32, or m not a multiple of 4, or t >= 2, or salt != 16 bytes; distinct = parameter tuple hash.".into();
    ctx.assumptions = vec![
        "libsodium's Argon2 (public and internal entry points, statically linked) is the reference".into(),
        "one lane, version 1.3 only (as the property states)".into(),
    ];
    let seed = ctx.seed;
    let mut cases: Vec<Case> = vec![];
    let mut f = ctx.fill("enum");
    for outlen in 16..=160usize {
        let a = 1 + (outlen % 2) as i32;
        cases.push(Case { alg: a, outlen, password: Hex(f.bytes(outlen % 37)), salt: Hex(f.bytes(if outlen % 3 == 0 { 16 } else { 8 + outlen % 40 })), ops: 1 + (outlen % 3) as u64, mem: (8 + outlen % 9) * 1024 });
    }
    for m in 8..=64usize {
        for t in 1..=3u64 {
            for a in 1..=2 {
                cases.push(Case { alg: a, outlen: 32, password: Hex(f.bytes(m % 20)), salt: Hex(f.bytes(16)), ops: t, mem: m * 1024 + [0usize, 1, 1023][m % 3] });
            }
        }
    }
    // pass counts: every t up to 40 and the neighbourhoods of 2^6..2^10 (2^16 in the thorough tier) at minimal memory
    // (a pass counter held in a narrower integer wraps there)
    let mut ts: Vec<u64> = (4..=40).collect();
    for b in [64u64, 128, 256, 512, 1024] {
        ts.extend([b - 1, b, b + 1, b + 2]);
    }
    if ctx.tier == Tier::Thorough {
        ts.extend([65535, 65536, 65537]);
    }
    for (i, &t) in ts.iter().enumerate() {
        cases.push(Case { alg: 1 + (i % 2) as i32, outlen: 32, password: Hex(f.bytes(5)), salt: Hex(f.bytes(16)), ops: t, mem: 8192 + [0usize, 1024, 3072][i % 3] });
        if t >= 255 {
            cases.push(Case { alg: 2 - (i % 2) as i32, outlen: 32, password: Hex(f.bytes(5)), salt: Hex(f.bytes(16)), ops: t, mem: 8192 });
        }
    }
    for pwlen in (0..=300usize).step_by(ctx.tier.pick(7, 1)) {
        cases.push(Case { alg: 2, outlen: 32, password: Hex(f.bytes(pwlen)), salt: Hex(f.bytes(16)), ops: 1, mem: 8192 });
    }
    for saltlen in 8..=64usize {
        cases.push(Case { alg: 1 + (saltlen % 2) as i32, outlen: 48, password: Hex(f.bytes(9)), salt: Hex(f.bytes(saltlen)), ops: 2, mem: 9 * 1024 });
    }
    let big: &[usize] = match ctx.tier {
        Tier::Quick => &[100, 255, 256, 1023, 1024],
        Tier::Thorough => &[100, 255, 256, 1023, 1024, 4096, 4099, 65536],
    };
    for &m in big {
        for a in 1..=2 {
            cases.push(Case { alg: a, outlen: 64, password: Hex(f.bytes(12)), salt: Hex(f.bytes(16)), ops: 3, mem: m * 1024 });
        }
    }
    // out-of-range
    for outlen in 0..=15usize {
        cases.push(Case { alg: 2, outlen, password: Hex(f.bytes(4)), salt: Hex(f.bytes(16)), ops: 1, mem: 8192 });
    }
    for saltlen in 0..=7usize {
        cases.push(Case { alg: 2, outlen: 32, password: Hex(f.bytes(4)), salt: Hex(f.bytes(saltlen)), ops: 1, mem: 8192 });
    }
    // out-of-range costs. Values above the maximum are chosen so that a truncating conversion (the likely slip)
    // lands on a SMALL in-range cost and returns quickly: the wrong acceptance is then seen deterministically.
    for (ops, mem) in [
        (0u64, 8192usize), (4294967296, 8192), (4294967297, 8192), (4294967298, 8192), ((1 << 33) + 3, 8192), ((1 << 63) + 1, 8192), ((1 << 40) + 2, 8192),
        (1, 0), (1, 1), (1, 8191), (1, MEMLIMIT_MAX + 1), (1, MEMLIMIT_MAX + 1 + 8192), (1, (1 << 42) + 16384), (1, (1usize << 52) + 8192), (0, 0),
    ] {
        for a in 1..=2 {
            cases.push(Case { alg: a, outlen: 32, password: Hex(f.bytes(4)), salt: Hex(f.bytes(16)), ops, mem });
        }
    }
    // values whose truncation would be a HUGE cost (u64::MAX -> t = 2^32-1, usize::MAX -> 2^54 KiB) are run last, each in a
    // forked child under an alarm: a child that is still computing when the alarm fires makes the check inconclusive
    // (exit 2), never a violation - wall-clock is not used as a correctness signal.
    let mut contained: Vec<Case> = vec![];
    for (ops, mem) in [(u64::MAX, 8192usize), (u64::MAX - 1, 65536), (1, usize::MAX), (3, usize::MAX - 1023)] {
        contained.push(Case { alg: 2, outlen: 32, password: Hex(f.bytes(4)), salt: Hex(f.bytes(16)), ops, mem });
    }
    ctx.par_each(&cases, |_, c, ev| {
        ev.eval(1);
        ev.class(if in_range(c) { if c.alg == 1 { "enumerated-argon2i" } else { "enumerated-argon2id" } } else { "out-of-range-must-Err" });
        if nontrivial(c) {
            ev.nontrivial(fnv64(&[serde_json::to_string(c).unwrap().as_bytes()]));
        }
        ev.sample(&format!("{}-{}", in_range(c), c.outlen % 3), || json!({"alg": c.alg, "outlen": c.outlen, "pwlen": c.password.len(), "saltlen": c.salt.len(), "ops": c.ops, "mem": c.mem}));
        check(c).map_err(|m| Violation::new("C09", "argon2", m, serde_json::to_value(c).unwrap()))
    })?;
    let n = ctx.tier.pick(12_000u32, 300_000);
    let max_m = ctx.tier.pick(256usize, 1024);
    let shards: Vec<u64> = (0..ctx.threads as u64).collect();
    let per = n / ctx.threads.max(1) as u32 + 1;
    ctx.par_each(&shards, |_, &sh, ev| {
        run_prop("C09", "argon2", seed.wrapping_mul(6151).wrapping_add(sh), per, case_strat(max_m), ev, |c, ev| {
            ev.eval(1);
            ev.class(if c.alg == 1 { "random-argon2i" } else { "random-argon2id" });
            if c.salt.len() != 16 {
                ev.class("random:salt-not-16-bytes");
            }
            if c.outlen > 64 {
                ev.class("random:outlen>64 (variable-length hash chaining)");
            }
            if (c.mem / 1024) % 4 != 0 {
                ev.class("random:m-not-multiple-of-4");
            }
            if nontrivial(c) {
                ev.nontrivial(fnv64(&[serde_json::to_string(c).unwrap().as_bytes()]));
            }
            check(c)
        })
    })?;
    for c in &contained {
        let (code, text) = in_child(20, || match check(c) {
            Ok(()) => (0, String::new()),
            Err(m) => (1, m),
        });
        ctx.ev.eval(1);
        ctx.ev.class("out-of-range-must-Err (contained in a child process)");
        match code {
            0 => {}
            1 => return Err(Violation::new("C09", "argon2", text, serde_json::to_value(c).unwrap())),
            c2 if c2 == -(libc::SIGALRM) => {
                eprintln!("INCONCLUSIVE: crypto_pwhash(ops={}, mem={}) neither returned Err nor finished within 20 s: out-of-range costs appear to be accepted (run contained; not counted as a violation because a clock is not an oracle)", c.ops, c.mem);
                std::process::exit(2);
            }
            other => {
                eprintln!("INCONCLUSIVE: contained out-of-range case ended with status {other}: {text}");
                std::process::exit(2);
            }
        }
    }
    if ctx.tier == Tier::Thorough {
        python_cross_check(ctx)?;
    }
    Ok(())
}

/// Third, independent implementation: pure-Python RFC 9106 (tools/argon2_ref.py) over a sample of
/// non-16-byte-salt cases. A disagreement between Python and libsodium is a harness error (exit 2).
fn python_cross_check(ctx: &mut Ctx) -> Result<(), Violation> {
    let verif = std::env::var("VERIF_DIR").unwrap_or("/verif".into());
    let tool = format!("{verif}/tools/argon2_ref.py");
    if !std::path::Path::new(&tool).exists() {
        ctx.ev.extra.insert("python_cross_check".into(), json!("tool missing; skipped"));
        return Ok(());
    }
    let mut f = ctx.fill("python");
    let mut lines = vec![];
    let mut cases = vec![];
    for i in 0..40usize {
        let c = Case {
            alg: 1 + (i % 2) as i32,
            outlen: [16usize, 32, 33, 64, 65, 96, 97, 128, 160, 200][i % 10],
            password: Hex(f.bytes(i % 23)),
            salt: Hex(f.bytes(if i % 4 == 0 { 16 } else { 8 + i % 30 })),
            ops: 1 + (i % 3) as u64,
            mem: (8 + i % 12) * 1024,
        };
        lines.push(format!("{} {} {} {} {} {}", c.alg, c.ops, c.mem / 1024, c.outlen, if c.password.is_empty() { "-".to_string() } else { hx(&c.password) }, hx(&c.salt)));
        cases.push(c);
    }
    let input = lines.join("\n") + "\n";
    let out = std::process::Command::new("python3").arg(&tool).stdin(std::process::Stdio::piped()).stdout(std::process::Stdio::piped()).spawn().and_then(|mut ch| {
        use std::io::Write;
        ch.stdin.take().unwrap().write_all(input.as_bytes())?;
        ch.wait_with_output()
    });
    let Ok(out) = out else {
        ctx.ev.extra.insert("python_cross_check".into(), json!("python3 failed to run; skipped"));
        return Ok(());
    };
    let text = String::from_utf8_lossy(&out.stdout);
    let outs: Vec<&str> = text.lines().collect();
    if outs.len() != cases.len() {
        eprintln!("HARNESS ERROR: python argon2 produced {} lines", outs.len());
        std::process::exit(2);
    }
    for (c, o) in cases.iter().zip(outs) {
        let r = reference(c).map_err(|m| Violation::new("C09", "harness", m, json!({})))?;
        if hx(&r) != o.trim() {
            eprintln!("HARNESS ERROR: python RFC 9106 implementation disagrees with libsodium on {c:?}");
            std::process::exit(2);
        }
        let mut outb = vec![0u8; c.outlen];
        let ok = crypto_pwhash(&mut outb, &c.password, &c.salt, c.ops, c.mem, alg(c.alg)).is_ok();
        ctx.ev.eval(1);
        ctx.ev.class("python-rfc9106-cross-check");
        if !ok || hx(&outb) != o.trim() {
            return Err(Violation::new("C09", "argon2", "crypto_pwhash differs from the pure-Python RFC 9106 implementation", serde_json::to_value(c).unwrap()));
        }
    }
    Ok(())
}

pub fn replay(v: &Violation) -> Result<(), String> {
    let c: Case = from_case(&v.case)?;
    check(&c)
}
