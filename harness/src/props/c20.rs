//! C20 — safe code cannot request an access the current state forbids (generated programs, rustc verdict).
use crate::core::*;
use proptest::prelude::*;
use serde::{Deserialize, Serialize};
use serde_json::json;

#[derive(Debug, Clone, Copy, PartialEq, Eq, Serialize, Deserialize)]
pub enum Pm {
    RW,
    RO,
    NA,
}

#[derive(Debug, Clone, Copy, PartialEq, Eq, Serialize, Deserialize)]
pub struct State {
    pub pm: Pm,
    pub locked: bool,
}

#[derive(Debug, Clone, Copy, PartialEq, Eq, Serialize, Deserialize)]
pub enum Trans {
    Lock,
    Unlock,
    ToRO,
    ToRW,
    ToNA,
}

#[derive(Debug, Clone, Copy, PartialEq, Eq, Serialize, Deserialize)]
pub enum OpKind {
    ReadView,
    MutView,
    ArrayView,
    MutArrayView,
    DerefRead,
    DerefMutWrite,
    IndexRead,
    IndexWrite,
    CopyFromSlice,
    AsRefSlice,
    AsMutSlice,
    AsMutArray,
    Resize,
    /// resize to fewer bytes than the region holds
    ResizeShrink,
    CloneOp,
    T(Trans),
    /// the same transition without `.unwrap()`: the call may return Err (locking pages that are
    /// currently no-access is refused by the OS) but must not fault
    TNoUnwrap(Trans),
    UseAfter(Trans),
}

#[derive(Debug, Clone, Copy, PartialEq, Eq, Serialize, Deserialize)]
pub enum Kind {
    Bytes,
    Array,
}

#[derive(Debug, Clone, PartialEq, Eq, Serialize, Deserialize)]
pub enum Expect {
    /// compiles; `run` = also execute it and require exit status 0
    Permitted { run: bool },
    /// must be rejected by the compiler with the primary error span on the marked line
    Forbidden,
    /// neither listed as misuse nor documented as permitted: recorded, never a violation
    Unspecified,
    NotApplicable,
}

#[derive(Debug, Clone, Serialize, Deserialize)]
pub struct Program {
    pub name: String,
    pub source: String,
    pub mark_line: usize,
    pub expect: Expect,
    /// name of the control program for a forbidden one
    pub control: Option<String>,
    pub cell: String,
}

fn trans_allowed(s: State, t: Trans) -> Expect {
    match t {
        Trans::Lock => {
            if s.locked {
                Expect::Unspecified
            } else {
                Expect::Permitted { run: s.pm != Pm::NA }
            }
        }
        Trans::Unlock => {
            if s.locked {
                Expect::Permitted { run: true }
            } else {
                Expect::Unspecified
            }
        }
        Trans::ToRO | Trans::ToRW => Expect::Permitted { run: true },
        // the statement: "a no-access transition on a locked region" is rejected by the compiler
        Trans::ToNA => {
            if s.locked {
                Expect::Forbidden
            } else {
                Expect::Permitted { run: true }
            }
        }
    }
}

fn apply_trans(s: State, t: Trans) -> State {
    match t {
        Trans::Lock => State { locked: true, ..s },
        Trans::Unlock => State { locked: false, ..s },
        Trans::ToRO => State { pm: Pm::RO, ..s },
        Trans::ToRW => State { pm: Pm::RW, ..s },
        Trans::ToNA => State { pm: Pm::NA, ..s },
    }
}

/// The model of the type-state table, written from the module documentation and the property
/// statement (not from the list of trait impls).
pub fn expect(s: State, k: Kind, op: OpKind) -> Expect {
    use OpKind::*;
    let readable = s.pm != Pm::NA;
    let writable = s.pm == Pm::RW;
    match op {
        ReadView | DerefRead | IndexRead => {
            if readable {
                Expect::Permitted { run: true }
            } else {
                Expect::Forbidden
            }
        }
        ArrayView => match k {
            Kind::Bytes => Expect::NotApplicable,
            Kind::Array => {
                if readable {
                    Expect::Permitted { run: true }
                } else {
                    Expect::Forbidden
                }
            }
        },
        AsRefSlice => {
            if readable {
                Expect::Permitted { run: true }
            } else {
                Expect::Forbidden
            }
        }
        AsMutArray => match k {
            Kind::Bytes => Expect::NotApplicable,
            Kind::Array => {
                if writable {
                    Expect::Permitted { run: true }
                } else {
                    Expect::Forbidden
                }
            }
        },
        MutView | DerefMutWrite | IndexWrite | CopyFromSlice | AsMutSlice => {
            if writable {
                Expect::Permitted { run: true }
            } else {
                Expect::Forbidden
            }
        }
        MutArrayView => match k {
            Kind::Bytes => Expect::NotApplicable,
            Kind::Array => {
                if writable {
                    Expect::Permitted { run: true }
                } else {
                    Expect::Forbidden
                }
            }
        },
        Resize | ResizeShrink => match k {
            Kind::Array => Expect::NotApplicable,
            Kind::Bytes => {
                if writable {
                    Expect::Permitted { run: true }
                } else {
                    Expect::Forbidden
                }
            }
        },
        CloneOp => {
            if !readable {
                Expect::Forbidden
            } else if s.locked && k == Kind::Array {
                Expect::Unspecified // cloning a locked fixed-length region is simply not offered
            } else {
                Expect::Permitted { run: true }
            }
        }
        T(t) => trans_allowed(s, t),
        TNoUnwrap(t) => match trans_allowed(s, t) {
            Expect::Permitted { .. } => Expect::Permitted { run: true },
            _ => Expect::NotApplicable,
        },
        UseAfter(t) => match trans_allowed(s, t) {
            Expect::Permitted { .. } => Expect::Forbidden,
            _ => Expect::NotApplicable,
        },
    }
}

fn trans_code(t: Trans) -> &'static str {
    match t {
        Trans::Lock => "mlock",
        Trans::Unlock => "munlock",
        Trans::ToRO => "mprotect_readonly",
        Trans::ToRW => "mprotect_readwrite",
        Trans::ToNA => "mprotect_noaccess",
    }
}

/// shortest valid chain from the constructor state (Locked/ReadWrite) to `target`
pub fn chain_to(target: State) -> Vec<Trans> {
    match (target.pm, target.locked) {
        (Pm::RW, true) => vec![],
        (Pm::RO, true) => vec![Trans::ToRO],
        (Pm::RW, false) => vec![Trans::Unlock],
        (Pm::RO, false) => vec![Trans::Unlock, Trans::ToRO],
        (Pm::NA, false) => vec![Trans::Unlock, Trans::ToNA],
        (Pm::NA, true) => vec![Trans::Unlock, Trans::ToNA, Trans::Lock],
    }
}

fn op_code(op: OpKind) -> Vec<String> {
    use OpKind::*;
    match op {
        ReadView => vec!["let _v: &[u8] = r.as_slice();".into()],
        MutView => vec!["let _v: &mut [u8] = r.as_mut_slice();".into()],
        ArrayView => vec!["let _a: &[u8; 32] = r.as_array();".into()],
        MutArrayView => vec!["let _a: &mut [u8; 32] = r.as_mut_array();".into()],
        DerefRead => vec!["let _n: usize = r.iter().map(|b| *b as usize).sum();".into()],
        DerefMutWrite => vec!["r.iter_mut().for_each(|b| *b = 2);".into()],
        IndexRead => vec!["let _b: u8 = r[0];".into()],
        IndexWrite => vec!["r[0] = 3;".into()],
        CopyFromSlice => vec!["MutBytes::copy_from_slice(&mut r, &DATA);".into()],
        AsRefSlice => vec!["let _v: &[u8] = AsRef::<[u8]>::as_ref(&r);".into()],
        AsMutSlice => vec!["let _v: &mut [u8] = AsMut::<[u8]>::as_mut(&mut r);".into()],
        AsMutArray => vec!["let _v: &mut [u8; 32] = AsMut::<[u8; 32]>::as_mut(&mut r);".into()],
        Resize => vec!["r.resize(64, 0);".into()],
        ResizeShrink => vec!["r.resize(8, 0); assert_eq!(r.len(), 8);".into()],
        CloneOp => vec!["let _c = r.clone();".into()],
        T(t) => vec![format!("let _r2 = r.{}().unwrap();", trans_code(t))],
        TNoUnwrap(t) => vec![format!("let _r2 = r.{}();", trans_code(t))],
        UseAfter(t) => vec![format!("let _r2 = r.{}().unwrap();", trans_code(t)), "drop(r);".into()],
    }
}

/// Emit a program: constructor, chain of transitions, then the op with its last line marked.
pub fn emit(name: &str, k: Kind, chain: &[Trans], op: OpKind, empty: bool, exp: Expect, control: Option<String>) -> Program {
    let mut lines: Vec<String> = vec![
        "#![allow(unused_mut, unused_variables, unused_imports)]".into(),
        "use dryoc::protected::*;".into(),
        "use dryoc::types::*;".into(),
        format!("const DATA: [u8; {}] = [7u8; {}];", if k == Kind::Array { 32 } else if empty { 0 } else { 40 }, if k == Kind::Array { 32 } else if empty { 0 } else { 40 }),
        "fn main() {".into(),
    ];
    let ctor = match k {
        Kind::Bytes => "HeapBytes::from_slice_into_locked(&DATA).unwrap()",
        Kind::Array => "HeapByteArray::<32>::from_slice_into_locked(&DATA).unwrap()",
    };
    let mut expr = ctor.to_string();
    for t in chain {
        expr = format!("{expr}.{}().unwrap()", trans_code(*t));
    }
    lines.push(format!("    let mut r = {expr};"));
    let code = op_code(op);
    for c in &code {
        lines.push(format!("    {c}"));
    }
    let mark_line = lines.len(); // 1-based line number of the last op line
    lines.push("}".into());
    let mut st = State { pm: Pm::RW, locked: true };
    for t in chain {
        st = apply_trans(st, *t);
    }
    Program {
        name: name.into(),
        source: lines.join("\n") + "\n",
        mark_line,
        expect: exp,
        control,
        cell: format!("{:?}/{}/{:?}/{:?}", st.pm, if st.locked { "Locked" } else { "Unlocked" }, k, op),
    }
}

fn stream_program(name: &str, op: &str, exp: Expect, control: Option<String>) -> Program {
    let lines = vec![
        "#![allow(unused_mut, unused_variables, unused_imports)]".to_string(),
        "use dryoc::dryocstream::*;".into(),
        "fn main() {".into(),
        "    let key = Key::gen();".into(),
        "    let (mut push, header): (_, Header) = DryocStream::init_push(&key);".into(),
        "    let mut pull = DryocStream::init_pull(&key, &header);".into(),
        "    let msg = b\"hello\".to_vec();".into(),
        "    let c: Vec<u8> = push.push_to_vec(&msg, None, Tag::MESSAGE).unwrap();".into(),
        format!("    {op}"),
        "}".into(),
    ];
    Program { name: name.into(), source: lines.join("\n") + "\n", mark_line: 9, expect: exp, control, cell: format!("stream/{op}") }
}

pub const ALL_STATES: [State; 6] = [
    State { pm: Pm::RW, locked: true },
    State { pm: Pm::RO, locked: true },
    State { pm: Pm::NA, locked: true },
    State { pm: Pm::RW, locked: false },
    State { pm: Pm::RO, locked: false },
    State { pm: Pm::NA, locked: false },
];

pub fn all_ops() -> Vec<OpKind> {
    use OpKind::*;
    let mut v = vec![ReadView, MutView, ArrayView, MutArrayView, DerefRead, DerefMutWrite, IndexRead, IndexWrite, CopyFromSlice, AsRefSlice, AsMutSlice, AsMutArray, Resize, ResizeShrink, CloneOp];
    for t in [Trans::Lock, Trans::Unlock, Trans::ToRO, Trans::ToRW, Trans::ToNA] {
        v.push(T(t));
    }
    for t in [Trans::Lock, Trans::Unlock, Trans::ToRO, Trans::ToRW, Trans::ToNA] {
        v.push(UseAfter(t));
    }
    for t in [Trans::Lock, Trans::Unlock, Trans::ToRO, Trans::ToRW, Trans::ToNA] {
        v.push(TNoUnwrap(t));
    }
    v
}

/// a state in which `op` is permitted (used for the control of a forbidden program)
fn control_state(k: Kind, op: OpKind) -> Option<State> {
    ALL_STATES.iter().copied().find(|s| matches!(expect(*s, k, op), Expect::Permitted { run: true }) && !(s.pm == Pm::NA && s.locked))
}

pub fn table_programs() -> Vec<Program> {
    let mut v = vec![];
    for k in [Kind::Bytes, Kind::Array] {
        for s in ALL_STATES {
            for op in all_ops() {
                let mut e = expect(s, k, op);
                if e == Expect::NotApplicable {
                    continue;
                }
                let chain = chain_to(s);
                // Locked/NoAccess is only reachable at run time with an empty resizable region
                let lna = s.pm == Pm::NA && s.locked;
                let empty = lna && k == Kind::Bytes;
                if let Expect::Permitted { run } = &mut e {
                    if lna && k == Kind::Array {
                        *run = false;
                    }
                    if matches!(op, OpKind::IndexRead | OpKind::IndexWrite) && empty {
                        *run = false;
                    }
                }
                let name = format!("t_{:?}_{:?}{}_{:?}", k, s.pm, if s.locked { "L" } else { "U" }, op).replace(['(', ')'], "_");
                let control = if e == Expect::Forbidden {
                    match op {
                        OpKind::UseAfter(_) => {
                            // control: the same final line without the consuming transition before it
                            let cname = format!("{name}_control");
                            let mut p = emit(&cname, k, &chain, OpKind::UseAfter(Trans::ToRW), empty, Expect::Permitted { run: !(lna && k == Kind::Array) }, None);
                            // drop the transition line: keep only `drop(r);`
                            let mut ls: Vec<&str> = p.source.lines().collect();
                            let idx = p.mark_line - 2;
                            ls.remove(idx);
                            p.source = ls.join("\n") + "\n";
                            p.mark_line -= 1;
                            p.cell = format!("{}/control", p.cell);
                            v.push(p);
                            Some(cname)
                        }
                        _ => control_state(k, op).map(|cs| {
                            let cname = format!("{name}_control");
                            let mut p = emit(&cname, k, &chain_to(cs), op, false, Expect::Permitted { run: true }, None);
                            p.cell = format!("{}/control-for-{:?}{}", p.cell, s.pm, if s.locked { "L" } else { "U" });
                            v.push(p);
                            cname
                        }),
                    }
                } else {
                    None
                };
                v.push(emit(&name, k, &chain, op, empty, e, control));
            }
        }
    }
    v.push(stream_program("s_push_on_push", "let _c2: Vec<u8> = push.push_to_vec(&msg, None, Tag::FINAL).unwrap();", Expect::Permitted { run: true }, None));
    v.push(stream_program("s_pull_on_pull", "let (_m, _t) = pull.pull_to_vec(&c, None).unwrap();", Expect::Permitted { run: true }, None));
    v.push(stream_program("s_pull_on_push", "let _r = push.pull_to_vec(&c, None);", Expect::Forbidden, Some("s_pull_on_pull".into())));
    v.push(stream_program("s_push_on_pull", "let _r: Result<Vec<u8>, _> = pull.push_to_vec(&msg, None, Tag::MESSAGE);", Expect::Forbidden, Some("s_push_on_push".into())));
    v.push(stream_program("s_push_generic_on_pull", "let _r: Result<Vec<u8>, _> = pull.push(&msg, None, Tag::MESSAGE);", Expect::Forbidden, Some("s_push_on_push".into())));
    v.push(stream_program("s_pull_generic_on_push", "let _r: Result<(Vec<u8>, Tag), _> = push.pull(&c, None);", Expect::Forbidden, Some("s_pull_on_pull".into())));
    v.push(stream_program("s_rekey_push", "push.rekey();", Expect::Permitted { run: true }, None));
    v.push(stream_program("s_rekey_pull", "pull.rekey();", Expect::Permitted { run: true }, None));
    v
}

/// random valid chain + random op, labelled by the model
pub fn random_programs(seed: u64, n: usize) -> Vec<Program> {
    let trans = prop_oneof![Just(Trans::Lock), Just(Trans::Unlock), Just(Trans::ToRO), Just(Trans::ToRW), Just(Trans::ToNA)];
    let strat = (prop_oneof![Just(Kind::Bytes), Just(Kind::Array)], proptest::collection::vec(trans, 1..=6), 0usize..all_ops().len());
    let raw = sample_strategy(seed, n * 3, &strat);
    let ops = all_ops();
    let mut out = vec![];
    for (i, (k, ts, oi)) in raw.into_iter().enumerate() {
        if out.len() >= n {
            break;
        }
        // keep only chains in which every step is permitted by the model
        let mut s = State { pm: Pm::RW, locked: true };
        let mut ok = true;
        let mut runnable = true;
        for t in &ts {
            match trans_allowed(s, *t) {
                Expect::Permitted { run } => {
                    runnable &= run;
                    s = apply_trans(s, *t);
                }
                _ => {
                    ok = false;
                    break;
                }
            }
        }
        if !ok {
            continue;
        }
        let op = ops[oi];
        let mut e = expect(s, k, op);
        if e == Expect::NotApplicable {
            continue;
        }
        if let Expect::Permitted { run } = &mut e {
            *run &= runnable && !(s.pm == Pm::NA && s.locked);
        }
        let mut p = emit(&format!("r_{i}"), k, &ts, op, false, e, None);
        p.cell = format!("random-chain/{}", p.cell);
        out.push(p);
    }
    out
}

pub struct Verdict {
    pub compiled: bool,
    pub ran_ok: Option<bool>,
    pub error_code: Option<String>,
    pub error_line: Option<usize>,
    pub error_message: String,
}

fn target_dir() -> String {
    format!("{}/target/c20", std::env::var("VERIF_DIR").unwrap_or("/verif".into()))
}

pub fn build_rlib() -> Result<(), String> {
    let td = target_dir();
    let out = std::process::Command::new("cargo")
        .args(["+nightly", "build", "--offline", "--manifest-path", "/repo/Cargo.toml", "--features", "nightly", "--target-dir", &td])
        .env("CARGO_NET_OFFLINE", "true")
        .output()
        .map_err(|e| format!("cargo: {e}"))?;
    if !out.status.success() {
        return Err(format!("building dryoc for C20 failed: {}", String::from_utf8_lossy(&out.stderr).lines().rev().take(15).collect::<Vec<_>>().join("\n")));
    }
    Ok(())
}

pub fn compile(p: &Program, need_binary: bool) -> Result<Verdict, String> {
    let td = target_dir();
    let dir = format!("{td}/progs");
    std::fs::create_dir_all(&dir).ok();
    let src = format!("{dir}/{}.rs", p.name);
    std::fs::write(&src, &p.source).map_err(|e| e.to_string())?;
    let bin = format!("{dir}/{}.bin", p.name);
    let mut cmd = std::process::Command::new("rustc");
    cmd.args(["+nightly", "--edition", "2021", "--error-format=json", "--crate-name", &p.name, "-L", &format!("dependency={td}/debug/deps"), "--extern", &format!("dryoc={td}/debug/libdryoc.rlib"), "-C", "debuginfo=0"]);
    if need_binary {
        cmd.args(["-o", &bin]);
    } else {
        cmd.args(["--emit=metadata", "-o", &format!("{dir}/{}.rmeta", p.name)]);
    }
    cmd.arg(&src);
    let out = cmd.output().map_err(|e| format!("rustc: {e}"))?;
    let mut v = Verdict { compiled: out.status.success(), ran_ok: None, error_code: None, error_line: None, error_message: String::new() };
    for line in String::from_utf8_lossy(&out.stderr).lines() {
        let Ok(j) = serde_json::from_str::<serde_json::Value>(line) else { continue };
        if j["level"] == "error" && v.error_message.is_empty() {
            v.error_message = j["message"].as_str().unwrap_or("").to_string();
            v.error_code = j["code"]["code"].as_str().map(|s| s.to_string());
            if let Some(spans) = j["spans"].as_array() {
                for s in spans {
                    if s["is_primary"] == true {
                        v.error_line = s["line_start"].as_u64().map(|x| x as usize);
                    }
                }
            }
        }
    }
    if v.compiled && need_binary {
        let r = std::process::Command::new(&bin).output().map_err(|e| format!("run: {e}"))?;
        v.ran_ok = Some(r.status.success());
        if !r.status.success() {
            v.error_message = format!("exit {:?}: {}", r.status, String::from_utf8_lossy(&r.stderr).lines().last().unwrap_or(""));
        }
        std::fs::remove_file(&bin).ok();
    }
    Ok(v)
}

const ACCEPTED_CODES: &[&str] = &["E0599", "E0277", "E0308", "E0382", "E0596", "E0594", "E0608", "E0614", "E0369", "E0282", "E0283"];

/// Ok(Some(note)) = evaluated; Err = violation
pub fn judge(p: &Program) -> Result<String, String> {
    match &p.expect {
        Expect::Permitted { run } => {
            let v = compile(p, *run)?;
            if !v.compiled {
                return Err(format!("permitted program {} ({}) does not compile: {} [{:?}] at line {:?}", p.name, p.cell, v.error_message, v.error_code, v.error_line));
            }
            if *run && v.ran_ok != Some(true) {
                return Err(format!("permitted program {} ({}) compiled but did not run cleanly: {}", p.name, p.cell, v.error_message));
            }
            Ok(if *run { "compiled+ran".into() } else { "compiled".into() })
        }
        Expect::Forbidden => {
            let v = compile(p, false)?;
            if v.compiled {
                return Err(format!("forbidden program {} ({}) was ACCEPTED by the compiler:\n{}", p.name, p.cell, p.source));
            }
            if v.error_line != Some(p.mark_line) {
                // rejected, but on one of the PERMITTED lines that lead to the marked one: that line is judged by its own
                // permitted cell (which reports the violation); this program cannot attribute anything
                return Ok(format!("unattributed:line{:?}:{}", v.error_line, v.error_code.clone().unwrap_or_default()));
            }
            let code = v.error_code.clone().unwrap_or_default();
            if !ACCEPTED_CODES.contains(&code.as_str()) {
                return Err(format!("harness: program {} rejected on the marked line with unclassified diagnostic {code}: {}", p.name, v.error_message));
            }
            Ok(format!("rejected:{code}"))
        }
        Expect::Unspecified => {
            let v = compile(p, false)?;
            Ok(format!("unspecified:{}", if v.compiled { "compiles".to_string() } else { v.error_code.unwrap_or_default() }))
        }
        Expect::NotApplicable => Ok("n/a".into()),
    }
}

pub fn run(ctx: &mut Ctx) -> Result<(), Violation> {
    ctx.rule = "Programs are GENERATED from the type-state table: cells {ReadWrite, ReadOnly, NoAccess} x {Locked, Unlocked} x {as_slice, as_mut_slice, as_array, as_mut_array, Deref read, DerefMut write, index read, index write, copy_from_slice, AsRef<[u8]>, AsMut<[u8]>, AsMut<[u8; N]>, resize, clone, mlock, munlock, mprotect_readonly, mprotect_readwrite, mprotect_noaccess, use-after-each-transition} for HeapBytes and HeapByteArray<32>, plus {Push, Pull} x {push, pull, generic push/pull, rekey}; each cell is a fn main reaching the state through a chain of valid transitions and performing the op on a marked line; thorough adds random valid chains (1..=6 transitions) + random op. A model written from the documentation labels each program permitted / forbidden (the statement's misuse list: mutable view of ReadOnly, any byte view of NoAccess, no-access transition on Locked, use after a consuming transition, pull on Push, push on Pull) / unspecified. Oracle: rustc +nightly --error-format=json against the dryoc rlib built from /repo: forbidden => compilation fails with the PRIMARY error span on the marked line and an error code in the accepted class; permitted => compiles and runs with exit status 0; every forbidden program has a control differing only in the state reached, which must compile and run. Non-trivial: forbidden-cell program whose control compiled and ran; distinct = program hash.".into();
    ctx.assumptions = vec![
        "the installed nightly rustc is the judge; a diagnostic outside the accepted class on the marked line, or an error elsewhere, is reported as a harness error (exit 2), not a violation".into(),
        "cells that are neither listed as misuse nor documented as permitted (e.g. locking an already locked region) are recorded, never judged".into(),
    ];
    if let Err(e) = build_rlib() {
        eprintln!("INCONCLUSIVE: {e}");
        std::process::exit(2);
    }
    let mut progs = table_programs();
    let table_n = progs.len();
    if ctx.tier == Tier::Thorough {
        progs.extend(random_programs(ctx.seed, 8000));
    } else {
        progs.extend(random_programs(ctx.seed, 120));
    }
    let results: std::sync::Mutex<std::collections::HashMap<String, bool>> = std::sync::Mutex::new(Default::default());
    let r = ctx.par_each(&progs, |_, p, ev| {
        ev.eval(1);
        let note = judge(p).map_err(|m| {
            if m.starts_with("harness:") || m.starts_with("rustc:") || m.starts_with("run:") {
                eprintln!("HARNESS ERROR: {m}");
                std::process::exit(2);
            }
            Violation::new("C20", "program", m, serde_json::to_value(p).unwrap())
        })?;
        results.lock().unwrap().insert(p.name.clone(), true);
        ev.class(&format!("{}:{}", match p.expect { Expect::Permitted { .. } => "permitted", Expect::Forbidden => "forbidden", Expect::Unspecified => "unspecified", Expect::NotApplicable => "n/a" }, note));
        if p.expect == Expect::Forbidden {
            ev.sample(&note, || json!({"cell": p.cell, "verdict": note, "marked_line": p.source.lines().nth(p.mark_line - 1), "control": p.control}));
        }
        Ok(())
    });
    r?;
    // nothing was reported although some forbidden programs were rejected on a line other than the marked one: the
    // harness cannot attribute those rejections - inconclusive, never a pass
    let unattributed: u64 = ctx.ev.classes.iter().filter(|(k, _)| k.contains(":unattributed:")).map(|(_, v)| *v).sum();
    if unattributed > 0 {
        eprintln!("HARNESS ERROR: {unattributed} forbidden program(s) were rejected on a line other than the marked one and no permitted cell failed");
        std::process::exit(2);
    }
    let done = results.lock().unwrap();
    for p in &progs {
        if p.expect == Expect::Forbidden {
            let control_ok = p.control.as_ref().map_or(p.cell.starts_with("random-chain"), |c| done.contains_key(c));
            if control_ok {
                ctx.ev.nontrivial(fnv64(&[p.source.as_bytes()]));
            }
        }
    }
    ctx.exhaustive = Some(true);
    ctx.ev.extra.insert("exhaustive_scope".into(), json!(format!("the enumerated type-state table ({table_n} programs incl. controls) is visited completely; random-chain programs are a sample")));
    ctx.ev.extra.insert("programs".into(), json!(progs.len()));
    std::fs::remove_dir_all(format!("{}/progs", target_dir())).ok();
    Ok(())
}

pub fn replay(v: &Violation) -> Result<(), String> {
    let p: Program = from_case(&v.case)?;
    build_rlib()?;
    judge(&p).map(|_| ())
}
