//! C06 — Ed25519 signatures are RFC 8032 exact and verification is strict.
use crate::core::*;
use crate::{models, sodium};
use dryoc::classic::crypto_sign::*;
use dryoc::sign::{IncrementalSigner, SignedMessage, SigningKeyPair};
use dryoc::types::*;
use num_bigint::BigUint;
use num_traits::One;
use serde::{Deserialize, Serialize};
use serde_json::json;

#[derive(Debug, Clone, Serialize, Deserialize)]
pub struct PosCase {
    pub seed: Hex,
    pub msg: Hex,
    pub with_model: bool,
}

#[derive(Debug, Clone, Serialize, Deserialize)]
pub struct NegCase {
    pub pk: Hex,
    pub msg: Hex,
    pub sig: Hex,
    pub prehashed: bool,
    pub family: String,
}

fn a32(h: &[u8]) -> Result<[u8; 32], String> {
    h.try_into().map_err(|_| "need 32 bytes".to_string())
}
fn a64(h: &[u8]) -> Result<[u8; 64], String> {
    h.try_into().map_err(|_| "need 64 bytes".to_string())
}

/// every dryoc verification form for (pk, msg, sig); returns per-form verdicts
pub fn dryoc_verdicts(pk: &[u8; 32], msg: &[u8], sig: &[u8; 64], prehashed: bool) -> Result<Vec<(&'static str, bool)>, String> {
    let mut v = vec![];
    if prehashed {
        let mut st = crypto_sign_init();
        crypto_sign_update(&mut st, msg);
        v.push(("crypto_sign_final_verify", no_panic(|| crypto_sign_final_verify(st, sig, pk).is_ok())?));
        let mut s = IncrementalSigner::new();
        s.update(&msg.to_vec());
        v.push(("IncrementalSigner::verify", no_panic(|| s.verify(sig, pk).is_ok())?));
    } else {
        v.push(("crypto_sign_verify_detached", no_panic(|| crypto_sign_verify_detached(sig, msg, pk).is_ok())?));
        let mut sm = sig.to_vec();
        sm.extend_from_slice(msg);
        let mut out = vec![0u8; msg.len()];
        let r = no_panic(|| crypto_sign_open(&mut out, &sm, pk).is_ok())?;
        if r && out != msg {
            return Err("crypto_sign_open returned Ok but a different message".into());
        }
        v.push(("crypto_sign_open", r));
        let smo = SignedMessage::<StackByteArray<64>, Vec<u8>>::from_parts(StackByteArray::from(*sig), msg.to_vec());
        v.push(("SignedMessage::verify", no_panic(|| smo.verify(pk).is_ok())?));
        let smo2 = SignedMessage::<[u8; 64], Vec<u8>>::from_bytes(&sm).map_err(|e| format!("SignedMessage::from_bytes: {e:?}"))?;
        v.push(("SignedMessage::from_bytes+verify", no_panic(|| smo2.verify(&StackByteArray::<32>::from(*pk)).is_ok())?));
    }
    Ok(v)
}

pub fn sodium_verdict(pk: &[u8; 32], msg: &[u8], sig: &[u8; 64], prehashed: bool) -> bool {
    if prehashed {
        sodium::sign_ph_verify(&[msg], sig, pk)
    } else {
        sodium::sign_verify_detached(sig, msg, pk)
    }
}

pub fn check_neg(c: &NegCase) -> Result<bool, String> {
    let pk = a32(&c.pk)?;
    let sig = a64(&c.sig)?;
    let want = sodium_verdict(&pk, &c.msg, &sig, c.prehashed);
    if !c.prehashed {
        // libsodium's combined open must agree with its detached verify (harness self-check)
        let mut sm = sig.to_vec();
        sm.extend_from_slice(&c.msg);
        if sodium::sign_open(&sm, &pk).is_some() != want {
            return Err("harness: libsodium open/verify disagree".into());
        }
    }
    for (form, got) in dryoc_verdicts(&pk, &c.msg, &sig, c.prehashed)? {
        if got != want {
            return Err(format!(
                "{form}: {} a signature that libsodium {} (family: {}; pk {}, sig {}, msg len {})",
                if got { "ACCEPTS" } else { "rejects" },
                if want { "accepts" } else { "REJECTS" },
                c.family,
                hx(&pk),
                hx(&sig),
                c.msg.len()
            ));
        }
    }
    Ok(want)
}

pub fn check_pos(c: &PosCase) -> Result<(), String> {
    let seed = a32(&c.seed)?;
    let msg = &c.msg.0;
    let (rpk, rsk) = sodium::sign_seed_keypair(&seed);
    let (pk, sk) = crypto_sign_seed_keypair(&seed);
    if pk != rpk || sk != rsk {
        return Err("crypto_sign_seed_keypair differs from libsodium".into());
    }
    // pure, detached
    let want = sodium::sign_detached(msg, &rsk);
    let mut sig = [0u8; 64];
    crypto_sign_detached(&mut sig, msg, &sk).map_err(|e| format!("crypto_sign_detached: {e:?}"))?;
    if sig != want {
        return Err(format!("crypto_sign_detached(msg len {}) = {} but libsodium = {}", msg.len(), hx(&sig), hx(&want)));
    }
    let mut sig2 = [0u8; 64];
    crypto_sign_detached(&mut sig2, msg, &sk).map_err(|e| format!("{e:?}"))?;
    if sig2 != sig {
        return Err("signing is not deterministic".into());
    }
    if c.with_model {
        let (mpk, msig) = models::ed_sign(&seed, &[], msg);
        if mpk != rpk || msig != want {
            return Err("harness: RFC 8032 model differs from libsodium".into());
        }
    }
    // combined
    let mut sm = vec![0u8; msg.len() + 64];
    crypto_sign(&mut sm, msg, &sk).map_err(|e| format!("crypto_sign: {e:?}"))?;
    if sm != sodium::sign_combined(msg, &rsk) {
        return Err("crypto_sign (combined) differs from libsodium".into());
    }
    let mut out = vec![0u8; msg.len()];
    crypto_sign_open(&mut out, &sm, &pk).map_err(|e| format!("crypto_sign_open rejected its own signature: {e:?}"))?;
    if out != *msg {
        return Err("crypto_sign_open returned a different message".into());
    }
    // object API
    let kp: SigningKeyPair<StackByteArray<32>, StackByteArray<64>> = SigningKeyPair::from_seed(&seed);
    if kp.public_key.as_slice() != rpk || kp.secret_key.as_slice() != rsk {
        return Err("SigningKeyPair::from_seed differs from libsodium".into());
    }
    let smo: SignedMessage<StackByteArray<64>, Vec<u8>> = kp.sign(msg.clone()).map_err(|e| format!("SigningKeyPair::sign: {e:?}"))?;
    if smo.to_vec() != sm {
        return Err("SigningKeyPair::sign(..).to_vec() differs from libsodium's combined form".into());
    }
    let tb: Vec<u8> = smo.to_bytes();
    if tb != sm {
        return Err("SignedMessage::to_bytes differs".into());
    }
    smo.verify(&kp.public_key).map_err(|_| "SignedMessage::verify rejected its own signature")?;
    let kp2: SigningKeyPair<Vec<u8>, Vec<u8>> = SigningKeyPair::from_slices(&rpk, &rsk).map_err(|e| format!("{e:?}"))?;
    let smo2 = kp2.sign_with_defaults(msg.as_slice()).map_err(|e| format!("{e:?}"))?;
    if smo2.to_vec() != sm {
        return Err("sign_with_defaults differs".into());
    }
    let (s_part, m_part) = smo2.into_parts();
    if s_part.as_slice() != want || m_part != *msg {
        return Err("SignedMessage::into_parts differs".into());
    }
    // prehashed
    let phwant = sodium::sign_ph_create(&[msg], &rsk);
    let mut st = crypto_sign_init();
    crypto_sign_update(&mut st, msg);
    let mut phsig = [0u8; 64];
    crypto_sign_final_create(st, &mut phsig, &sk).map_err(|e| format!("final_create: {e:?}"))?;
    if phsig != phwant {
        return Err(format!("crypto_sign_final_create(msg len {}) differs from libsodium", msg.len()));
    }
    if c.with_model {
        let (_, msig) = models::ed_sign(&seed, models::DOM2_PH, &models::sha512(msg));
        if msig != phwant {
            return Err("harness: Ed25519ph model differs from libsodium".into());
        }
    }
    let mut s = IncrementalSigner::new();
    s.update(msg);
    let os: Vec<u8> = s.finalize(&kp.secret_key).map_err(|e| format!("{e:?}"))?;
    if os != phwant {
        return Err("IncrementalSigner::finalize differs from libsodium".into());
    }
    // "incremental mode": the same message in many small pieces (piece size varies with the length) must give
    // the same pre-hashed signature and verify incrementally
    if !msg.is_empty() {
        let k = [1usize, 3, 8, 16, 32, 61][msg.len() % 6];
        let mut st = crypto_sign_init();
        let mut s = IncrementalSigner::new();
        let mut vst = crypto_sign_init();
        for p in msg.chunks(k) {
            crypto_sign_update(&mut st, p);
            s.update(&p);
            crypto_sign_update(&mut vst, p);
        }
        let mut sig2 = [0u8; 64];
        crypto_sign_final_create(st, &mut sig2, &sk).map_err(|e| format!("final_create: {e:?}"))?;
        let os2: Vec<u8> = s.finalize(&kp.secret_key).map_err(|e| format!("{e:?}"))?;
        if sig2 != phwant || os2 != phwant {
            return Err(format!("pre-hashed signature over a {}-byte message fed in {k}-byte pieces differs from libsodium's", msg.len()));
        }
        if crypto_sign_final_verify(vst, &phwant, &pk).is_err() {
            return Err(format!("crypto_sign_final_verify over {k}-byte pieces rejects libsodium's pre-hashed signature of a {}-byte message", msg.len()));
        }
    }
    // every produced signature verifies in both libraries, in its own mode only
    for (prehashed, sg) in [(false, want), (true, phwant)] {
        let n = NegCase { pk: Hex(rpk.to_vec()), msg: Hex(msg.clone()), sig: Hex(sg.to_vec()), prehashed, family: "valid".into() };
        if !check_neg(&n)? {
            return Err("harness: libsodium rejects its own signature".into());
        }
        let x = NegCase { prehashed: !prehashed, family: "mode-crossover".into(), ..n };
        if check_neg(&x)? {
            return Err("harness: libsodium accepts a signature made in the other mode".into());
        }
    }
    Ok(())
}

fn small_order_encodings() -> Vec<[u8; 32]> {
    let p = models::fp();
    let one = BigUint::one();
    let y8a = BigUint::parse_bytes(b"2707385501144840649318225287225658788936804267575313519463743609750303402022", 10).unwrap();
    let y8b = BigUint::parse_bytes(b"55188659117513257062467267217118295137698188065244968500265048394206261417927", 10).unwrap();
    let ys = vec![BigUint::from(0u32), one.clone(), y8a, y8b, &p - &one, p.clone(), &p + &one];
    let mut v = vec![];
    for y in ys {
        let e = models::to32(&y);
        v.push(e);
        let mut s = e;
        s[31] |= 0x80;
        v.push(s);
    }
    v
}

fn noncanonical_encodings() -> Vec<[u8; 32]> {
    let p = models::fp();
    let mut v = vec![];
    for k in 0u32..19 {
        let e = models::to32(&(&p + BigUint::from(k)));
        v.push(e);
        let mut s = e;
        s[31] |= 0x80;
        v.push(s);
    }
    v
}

/// negative family derived from one valid (seed, msg)
pub fn negatives(seed: &[u8; 32], msg: &[u8], all_bits: bool, f: &mut Fill) -> Vec<NegCase> {
    let (pk, sk) = sodium::sign_seed_keypair(seed);
    let mut out = vec![];
    for prehashed in [false, true] {
        let sig = if prehashed { sodium::sign_ph_create(&[msg], &sk) } else { sodium::sign_detached(msg, &sk) };
        let mk = |pk: &[u8; 32], msg: &[u8], sig: &[u8; 64], family: &str| NegCase { pk: Hex(pk.to_vec()), msg: Hex(msg.to_vec()), sig: Hex(sig.to_vec()), prehashed, family: family.into() };
        // bit flips
        let sig_bits: Vec<usize> = if all_bits { (0..512).collect() } else { (0..24).map(|_| f.below(512) as usize).collect() };
        for b in sig_bits {
            let mut s = sig;
            s[b / 8] ^= 1 << (b % 8);
            out.push(mk(&pk, msg, &s, "flip-signature-bit"));
        }
        let pk_bits: Vec<usize> = if all_bits { (0..256).collect() } else { (0..12).map(|_| f.below(256) as usize).collect() };
        for b in pk_bits {
            let mut k = pk;
            k[b / 8] ^= 1 << (b % 8);
            out.push(mk(&k, msg, &sig, "flip-public-key-bit"));
        }
        let msg_bits: Vec<usize> = if all_bits { (0..msg.len() * 8).collect() } else { (0..12.min(msg.len() * 8)).map(|_| f.below((msg.len() * 8) as u64) as usize).collect() };
        for b in msg_bits {
            let mut m = msg.to_vec();
            m[b / 8] ^= 1 << (b % 8);
            out.push(mk(&pk, &m, &sig, "flip-message-bit"));
        }
        let mut m2 = msg.to_vec();
        m2.push(0);
        out.push(mk(&pk, &m2, &sig, "message-extended"));
        if !msg.is_empty() {
            out.push(mk(&pk, &msg[..msg.len() - 1], &sig, "message-truncated"));
        }
        // malleation S + kL
        let l = models::ed_l();
        let s0 = BigUint::from_bytes_le(&sig[32..]);
        for k in 1u32..=16 {
            let s = &s0 + &l * BigUint::from(k);
            if s.bits() <= 256 {
                let mut sg = sig;
                sg[32..].copy_from_slice(&models::to32(&s));
                out.push(mk(&pk, msg, &sg, "malleated S+kL"));
            }
        }
        // S + L with top bits forced
        for top in [0x10u8, 0x20, 0x40, 0x80, 0xf0] {
            let mut sg = sig;
            sg[63] |= top;
            out.push(mk(&pk, msg, &sg, "S with top bits forced"));
        }
        // S = L exactly, S = L - 1 + stuff
        for d in 0u32..2 {
            let mut sg = sig;
            sg[32..].copy_from_slice(&models::to32(&(&l - BigUint::from(d))));
            out.push(mk(&pk, msg, &sg, "S = L - d"));
        }
    }
    out
}

fn torsion_and_tables(f: &mut Fill, n_mixed: usize) -> Vec<NegCase> {
    let mut out = vec![];
    let so = small_order_encodings();
    let nc = noncanonical_encodings();
    let (pk, sk) = sodium::sign_seed_keypair(&f.arr());
    let msg = f.bytes(20);
    for prehashed in [false, true] {
        let valid = if prehashed { sodium::sign_ph_create(&[&msg], &sk) } else { sodium::sign_detached(&msg, &sk) };
        let zero_s = [0u8; 32];
        for r in so.iter().chain(nc.iter()) {
            for (pkx, fam) in [(pk, "small-order or non-canonical R, honest pk")].into_iter().chain(so.iter().map(|p| (*p, "small-order/non-canonical R and small-order pk"))) {
                for s in [&zero_s[..], &valid[32..]] {
                    let mut sg = [0u8; 64];
                    sg[..32].copy_from_slice(r);
                    sg[32..].copy_from_slice(s);
                    out.push(NegCase { pk: Hex(pkx.to_vec()), msg: Hex(msg.clone()), sig: Hex(sg.to_vec()), prehashed, family: fam.into() });
                }
            }
        }
        for p in so.iter().chain(nc.iter()) {
            out.push(NegCase { pk: Hex(p.to_vec()), msg: Hex(msg.clone()), sig: Hex(valid.to_vec()), prehashed, family: "small-order or non-canonical pk, honest signature".into() });
            let mut sg = valid;
            sg[32..].fill(0);
            out.push(NegCase { pk: Hex(p.to_vec()), msg: Hex(msg.clone()), sig: Hex(sg.to_vec()), prehashed, family: "small-order or non-canonical pk, S=0".into() });
        }
    }
    let l = models::ed_l();
    let base = models::ed_base();
    // Signatures CRAFTED so that the cofactorless equation holds although R or the public key has small order
    // (a plain sweep of small-order encodings with unrelated S fails the equation anyway and proves nothing):
    //  (i) R = any encoding of the identity, S = k*a mod L  =>  [S]B = R + [k]A;
    // (ii) public key = small-order T, R = [r]B, S = r, message searched until k = H(R,T,M) = 0 mod ord(T)  =>  [S]B = R + [k]T.
    {
        let seed: [u8; 32] = f.arr();
        let h = models::sha512(&seed);
        let mut sc = [0u8; 32];
        sc.copy_from_slice(&h[..32]);
        sc[0] &= 248;
        sc[31] &= 63;
        sc[31] |= 64;
        let a = BigUint::from_bytes_le(&sc);
        let a_enc = models::ed_encode(&models::ed_mul(&a, &base));
        let identity_aliases: Vec<[u8; 32]> = so.iter().copied().filter(|e| models::ed_decode(e, false).map_or(false, |p| p == models::ed_identity())).collect();
        for r_enc in &identity_aliases {
            for prehashed in [false, true] {
                for j in 0..3u8 {
                    let msg = vec![j, 0x11];
                    let hashed = if prehashed { models::sha512(&msg).to_vec() } else { msg.clone() };
                    let mut inp = if prehashed { models::DOM2_PH.to_vec() } else { vec![] };
                    inp.extend_from_slice(r_enc);
                    inp.extend_from_slice(&a_enc);
                    inp.extend_from_slice(&hashed);
                    let k = BigUint::from_bytes_le(&models::sha512(&inp)) % &l;
                    let s = (&k * &a) % &l;
                    let mut sg = [0u8; 64];
                    sg[..32].copy_from_slice(r_enc);
                    sg[32..].copy_from_slice(&models::to32(&s));
                    out.push(NegCase { pk: Hex(a_enc.to_vec()), msg: Hex(msg), sig: Hex(sg.to_vec()), prehashed, family: "crafted: R = identity (small order), S = k*a so the equation holds".into() });
                }
            }
        }
        let r = BigUint::from_bytes_le(&f.bytes(32)) % &l;
        let r_enc = models::ed_encode(&models::ed_mul(&r, &base));
        for t_enc in &so {
            let Some(tp) = models::ed_decode(t_enc, false) else { continue };
            let mut found = 0;
            for j in 0..200u32 {
                let msg = j.to_le_bytes().to_vec();
                let mut inp = r_enc.to_vec();
                inp.extend_from_slice(t_enc);
                inp.extend_from_slice(&msg);
                let k = BigUint::from_bytes_le(&models::sha512(&inp)) % &l;
                if models::ed_mul(&k, &tp) == models::ed_identity() {
                    let mut sg = [0u8; 64];
                    sg[..32].copy_from_slice(&r_enc);
                    sg[32..].copy_from_slice(&models::to32(&r));
                    out.push(NegCase { pk: Hex(t_enc.to_vec()), msg: Hex(msg), sig: Hex(sg.to_vec()), prehashed: false, family: "crafted: small-order public key with [k]A = O so the equation holds".into() });
                    found += 1;
                    if found >= 2 {
                        break;
                    }
                }
            }
        }
    }
    // mixed-order public keys A' = A + T and commitments R' = R + T: built with the big-integer model
    let torsion: Vec<models::EdPoint> = so.iter().filter_map(|e| models::ed_decode(e, false)).filter(|p| *p != models::ed_identity()).collect();
    for i in 0..n_mixed {
        let seed: [u8; 32] = f.arr();
        let h = models::sha512(&seed);
        let mut sc = [0u8; 32];
        sc.copy_from_slice(&h[..32]);
        sc[0] &= 248;
        sc[31] &= 63;
        sc[31] |= 64;
        let a = BigUint::from_bytes_le(&sc);
        let a_pt = models::ed_mul(&a, &base);
        let t = &torsion[i % torsion.len()];
        let a_mixed = models::ed_encode(&models::ed_add(&a_pt, t));
        let r = BigUint::from_bytes_le(&f.bytes(32)) % &l;
        let r_pt = models::ed_mul(&r, &base);
        let mixed_r = i % 3 == 2;
        let r_enc = if mixed_r { models::ed_encode(&models::ed_add(&r_pt, t)) } else { models::ed_encode(&r_pt) };
        let pk_enc = if mixed_r { models::ed_encode(&a_pt) } else { a_mixed };
        // try a few messages: about 1/8 (1/4, 1/2) give k = 0 mod ord(T), where accepting is what libsodium does
        for j in 0..6u8 {
            let msg = vec![j, i as u8, 0x5a];
            let mut inp = r_enc.to_vec();
            inp.extend_from_slice(&pk_enc);
            inp.extend_from_slice(&msg);
            let k = BigUint::from_bytes_le(&models::sha512(&inp)) % &l;
            let s = (&r + &k * &a) % &l;
            let mut sg = [0u8; 64];
            sg[..32].copy_from_slice(&r_enc);
            sg[32..].copy_from_slice(&models::to32(&s));
            out.push(NegCase { pk: Hex(pk_enc.to_vec()), msg: Hex(msg), sig: Hex(sg.to_vec()), prehashed: false, family: if mixed_r { "mixed-order R (R+T)".into() } else { "mixed-order public key (A+T)".into() } });
        }
    }
    out
}

pub fn run(ctx: &mut Ctx) -> Result<(), Violation> {
    ctx.rule = "Positive: every message length 0..=L (+1 KiB, 64 KiB) x K seeded seeds (+ RFC 8032 §7.1 seeds) through crypto_sign_detached / crypto_sign / crypto_sign_open / SigningKeyPair::{from_seed,from_slices,sign,sign_with_defaults} / SignedMessage::{to_vec,to_bytes,into_parts,verify} / crypto_sign_final_create / IncrementalSigner; oracle: bytes == libsodium (== big-integer RFC 8032 model on a subset), deterministic, verifies in both libraries and only in its own mode. Negative: from valid (pk,msg,sig) in both modes: every single-bit flip of signature (512) and public key (256) and message on selected messages (a seeded subset elsewhere), message extension/truncation, S+kL for every k with S+kL < 2^256, top bits of S forced, S = L, L-1; all 14 small-order encodings and 38 non-canonical encodings as R and as pk (with S = 0 and honest S); model-constructed mixed-order public keys A+T and commitments R+T with several messages each (about 1 in ord(T) must be ACCEPTED: guards against over-strict verification). Oracle: accept/reject of every dryoc verify form == libsodium's. Non-trivial: any negative-family member; distinct = hash(pk,msg,sig,mode).".into();
    ctx.assumptions = vec!["libsodium 1.0.18's decision is the reference for strictness".into(), "RFC 8032 BigUint model pinned by §7.1 and §7.3 vectors".into()];
    let seed = ctx.seed;
    let l = ctx.tier.pick(320usize, 800);
    let k = ctx.tier.pick(2usize, 24);
    let mut pos: Vec<PosCase> = vec![];
    let mut lens: Vec<usize> = (0..=l).collect();
    lens.extend_from_slice(&[1024, 65536]);
    for &len in &lens {
        for fi in 0..k {
            let mut f = Fill::new(seed, &format!("C06:{len}:{fi}"));
            pos.push(PosCase { seed: Hex(f.bytes(32)), msg: Hex(f.content(fi, len)), with_model: len % 16 == 1 && fi == 0 });
        }
    }
    for (s, m) in [
        ("9d61b19deffd5a60ba844af492ec2cc44449c5697b326919703bac031cae7f60", ""),
        ("4ccd089b28ff96da9db6c346ec114e0f5b8a319f35aba624da8cf6ed4fb8a6fb", "72"),
        ("c5aa8df43f9f837bedb7442f31dcb7b166d38535076f094b85ce3a2e0b4458f7", "af82"),
    ] {
        pos.push(PosCase { seed: Hex(hex::decode(s).unwrap()), msg: Hex(hex::decode(m).unwrap()), with_model: true });
    }
    ctx.par_each(&pos, |_, c, ev| {
        ev.eval(1);
        ev.class("positive(all-forms,both-modes)");
        if !c.msg.is_empty() {
            ev.nontrivial(fnv64(&[b"pos", &c.seed, &c.msg]));
        }
        if c.msg.len() == 2 {
            ev.sample("positive", || json!({"seed": hx(&c.seed), "msg": hx(&c.msg)}));
        }
        check_pos(c).map_err(|m| Violation::new("C06", "positive", m, serde_json::to_value(c).unwrap()))
    })?;
    // negative family
    let n_full = ctx.tier.pick(32usize, 1500);
    let n_sub = ctx.tier.pick(800usize, 20_000);
    let groups: Vec<usize> = (0..n_full + n_sub).collect();
    ctx.par_each(&groups, |_, &gi, ev| {
        let mut f = Fill::new(seed, &format!("C06:neg:{gi}"));
        let s: [u8; 32] = f.arr();
        let mlen = [0usize, 1, 2, 31, 32, 33, 64, 100][gi % 8];
        let msg = f.bytes(mlen);
        for c in negatives(&s, &msg, gi < n_full, &mut f) {
            ev.eval(1);
            ev.class(&format!("{}{}", c.family, if c.prehashed { " (ph)" } else { "" }));
            ev.nontrivial(fnv64(&[&c.pk, &c.msg, &c.sig, &[c.prehashed as u8]]));
            ev.sample(&c.family, || json!({"family": c.family, "pk": hx(&c.pk), "sig": hx(&c.sig), "msg": hx(&c.msg), "prehashed": c.prehashed}));
            let accepted = check_neg(&c).map_err(|m| Violation::new("C06", "negative", m, serde_json::to_value(&c).unwrap()))?;
            if accepted {
                return Err(Violation::new("C06", "harness", format!("harness: libsodium accepts a member of family {}", c.family), serde_json::to_value(&c).unwrap()));
            }
        }
        Ok(())
    })?;
    let mut f = ctx.fill("tables");
    let table = torsion_and_tables(&mut f, ctx.tier.pick(64, 2000));
    ctx.par_each(&table, |_, c, ev| {
        ev.eval(1);
        let accepted = check_neg(c).map_err(|m| Violation::new("C06", "negative", m, serde_json::to_value(c).unwrap()))?;
        ev.class(&format!("{}{}: {}", c.family, if c.prehashed { " (ph)" } else { "" }, if accepted { "both accept" } else { "both reject" }));
        ev.nontrivial(fnv64(&[&c.pk, &c.msg, &c.sig, &[c.prehashed as u8]]));
        ev.sample(&format!("{}-{accepted}", c.family), || json!({"family": c.family, "accepted_by_both": accepted, "pk": hx(&c.pk), "sig": hx(&c.sig), "msg": hx(&c.msg)}));
        Ok(())
    })?;
    ctx.ev.sample_cap = 30;
    Ok(())
}

pub fn replay(v: &Violation) -> Result<(), String> {
    if v.kind == "positive" {
        let c: PosCase = from_case(&v.case)?;
        check_pos(&c)
    } else {
        let c: NegCase = from_case(&v.case)?;
        check_neg(&c).map(|_| ())
    }
}
