//! C11 — every randomised operation draws fresh randomness on every call.
use crate::core::*;
use crate::sodium;
use base64::Engine as _;
use dryoc::types::*;
use serde_json::json;
use std::collections::{HashMap, HashSet};

pub struct EntryPoint {
    pub name: &'static str,
    pub slow: bool,
    pub call: Box<dyn Fn() -> Result<Vec<u8>, String> + Sync + Send>,
}

fn ep(name: &'static str, f: impl Fn() -> Result<Vec<u8>, String> + Sync + Send + 'static) -> EntryPoint {
    EntryPoint { name, slow: false, call: Box::new(f) }
}
fn ep_slow(name: &'static str, f: impl Fn() -> Result<Vec<u8>, String> + Sync + Send + 'static) -> EntryPoint {
    EntryPoint { name, slow: true, call: Box::new(f) }
}

fn pair_ok(pk: &[u8], sk: &[u8]) -> Result<(), String> {
    let skb: [u8; 32] = sk[..32].try_into().unwrap();
    if sodium::scalarmult_base(&skb)[..] != pk[..] {
        return Err("generated public key is not the base-point multiple of the generated secret key".into());
    }
    Ok(())
}
fn sign_pair_ok(pk: &[u8], sk: &[u8]) -> Result<(), String> {
    let seed: [u8; 32] = sk[..32].try_into().unwrap();
    let (rpk, rsk) = sodium::sign_seed_keypair(&seed);
    if rpk[..] != pk[..] || rsk[..] != sk[..] {
        return Err("generated signing key pair is not consistent (pk/sk do not derive from the seed half)".into());
    }
    Ok(())
}

macro_rules! gens {
    ($v:ident, $($n:expr),*) => {$(
        $v.push(ep(concat!("StackByteArray<", stringify!($n), ">::gen"), || Ok(StackByteArray::<$n>::gen().to_vec())));
        $v.push(ep(concat!("[u8;", stringify!($n), "]::gen"), || Ok(<[u8; $n] as NewByteArray<$n>>::gen().to_vec())));
        $v.push(ep(concat!("Vec<u8> as NewByteArray<", stringify!($n), ">::gen"), || Ok(<Vec<u8> as NewByteArray<$n>>::gen())));
    )*};
}

pub fn entry_points() -> Vec<EntryPoint> {
    let mut v: Vec<EntryPoint> = vec![];
    gens!(v, 8, 16, 24, 32, 64);
    v.push(ep("rng::randombytes_buf(32)", || Ok(dryoc::rng::randombytes_buf(32))));
    v.push(ep("rng::randombytes_buf(13)", || Ok(dryoc::rng::randombytes_buf(13))));
    v.push(ep("rng::randombytes_buf(257)", || Ok(dryoc::rng::randombytes_buf(257))));
    v.push(ep("rng::randombytes_buf(1000)", || Ok(dryoc::rng::randombytes_buf(1000))));
    v.push(ep("rng::copy_randombytes(4099)", || {
        let mut b = vec![0u8; 4099];
        dryoc::rng::copy_randombytes(&mut b);
        Ok(b)
    }));
    v.push(ep("StackByteArray<300>::gen", || Ok(StackByteArray::<300>::gen().to_vec())));
    v.push(ep("Vec<u8> as NewByteArray<513>::gen", || Ok(<Vec<u8> as NewByteArray<513>>::gen())));
    v.push(ep("[u8; 48] as NewByteArray<48>::gen", || Ok(<[u8; 48] as NewByteArray<48>>::gen().to_vec())));
    v.push(ep("StackByteArray<24>::gen (Nonce)", || Ok(dryoc::dryocbox::Nonce::gen().to_vec())));
    v.push(ep("rng::copy_randombytes(40)", || {
        let mut b = vec![0u8; 40];
        dryoc::rng::copy_randombytes(&mut b);
        Ok(b)
    }));
    v.push(ep("crypto_box_keypair", || {
        let (pk, sk) = dryoc::classic::crypto_box::crypto_box_keypair();
        pair_ok(&pk, &sk)?;
        Ok([pk, sk].concat())
    }));
    v.push(ep("crypto_box_keypair_inplace", || {
        let (mut pk, mut sk) = ([0u8; 32], [0u8; 32]);
        dryoc::classic::crypto_box::crypto_box_keypair_inplace(&mut pk, &mut sk);
        pair_ok(&pk, &sk)?;
        Ok([pk, sk].concat())
    }));
    // the same in-place generators called again and again on ONE caller buffer that is never reset (it starts
    // with a non-zero pattern and afterwards holds the previous call's output)
    {
        use std::sync::Mutex;
        let b = Mutex::new(([0x77u8; 32], [0x77u8; 32]));
        v.push(ep("crypto_box_keypair_inplace (caller buffers reused)", move || {
            let mut g = b.lock().unwrap();
            let (pk, sk) = &mut *g;
            dryoc::classic::crypto_box::crypto_box_keypair_inplace(pk, sk);
            pair_ok(pk, sk)?;
            Ok([*pk, *sk].concat())
        }));
        let b = Mutex::new(([0x77u8; 32], [0x77u8; 64]));
        v.push(ep("crypto_sign_keypair_inplace (caller buffers reused)", move || {
            let mut g = b.lock().unwrap();
            let (pk, sk) = &mut *g;
            dryoc::classic::crypto_sign::crypto_sign_keypair_inplace(pk, sk);
            sign_pair_ok(pk, sk)?;
            Ok([&pk[..], &sk[..32]].concat())
        }));
        let b = Mutex::new([0x77u8; 32]);
        v.push(ep("crypto_secretbox_keygen_inplace (caller buffer reused)", move || {
            let mut g = b.lock().unwrap();
            dryoc::classic::crypto_secretbox::crypto_secretbox_keygen_inplace(&mut g);
            Ok(g.to_vec())
        }));
        let b = Mutex::new(vec![0x77u8; 40]);
        v.push(ep("rng::copy_randombytes(40) (caller buffer reused)", move || {
            let mut g = b.lock().unwrap();
            dryoc::rng::copy_randombytes(&mut g);
            Ok(g.clone())
        }));
        let b = Mutex::new((dryoc::classic::crypto_secretstream_xchacha20poly1305::State::new(), [0x77u8; 24]));
        v.push(ep("crypto_secretstream init_push header (state and header buffer reused)", move || {
            use dryoc::classic::crypto_secretstream_xchacha20poly1305 as css;
            let mut g = b.lock().unwrap();
            let (st, h) = &mut *g;
            css::crypto_secretstream_xchacha20poly1305_init_push(st, h, &[7u8; 32]);
            Ok(h.to_vec())
        }));
        let b = Mutex::new(vec![0x77u8; 3 + 48 + 13]);
        v.push(ep("crypto_box_seal ephemeral key (oversized ciphertext buffer, reused)", move || {
            let rpk = sodium::scalarmult_base(&[5u8; 32]);
            let mut g = b.lock().unwrap();
            match dryoc::classic::crypto_box::crypto_box_seal(&mut g, b"abc", &rpk) {
                Ok(()) => Ok(g[..32].to_vec()),
                // an implementation may insist on an exact-size buffer: then this entry degenerates to the exact-size one
                Err(_) => {
                    let mut c = vec![0u8; 3 + 48];
                    dryoc::classic::crypto_box::crypto_box_seal(&mut c, b"abc", &rpk).map_err(|e| format!("{e:?}"))?;
                    Ok(c[..32].to_vec())
                }
            }
        }));
        let b = Mutex::new(vec![0x77u8; 3 + 48]);
        v.push(ep("crypto_box_seal ephemeral key (ciphertext buffer reused)", move || {
            let rpk = sodium::scalarmult_base(&[5u8; 32]);
            let mut g = b.lock().unwrap();
            dryoc::classic::crypto_box::crypto_box_seal(&mut g, b"abc", &rpk).map_err(|e| format!("{e:?}"))?;
            Ok(g[..32].to_vec())
        }));
    }
    v.push(ep("crypto_kx_keypair", || {
        let (pk, sk) = dryoc::classic::crypto_kx::crypto_kx_keypair();
        pair_ok(&pk, &sk)?;
        Ok([pk, sk].concat())
    }));
    v.push(ep("crypto_sign_keypair", || {
        let (pk, sk) = dryoc::classic::crypto_sign::crypto_sign_keypair();
        sign_pair_ok(&pk, &sk)?;
        Ok([&pk[..], &sk[..32]].concat())
    }));
    v.push(ep("crypto_sign_keypair_inplace", || {
        let (mut pk, mut sk) = ([0u8; 32], [0u8; 64]);
        dryoc::classic::crypto_sign::crypto_sign_keypair_inplace(&mut pk, &mut sk);
        sign_pair_ok(&pk, &sk)?;
        Ok([&pk[..], &sk[..32]].concat())
    }));
    v.push(ep("crypto_secretbox_keygen", || Ok(dryoc::classic::crypto_secretbox::crypto_secretbox_keygen().to_vec())));
    v.push(ep("crypto_secretbox_keygen_inplace", || {
        let mut k = [0u8; 32];
        dryoc::classic::crypto_secretbox::crypto_secretbox_keygen_inplace(&mut k);
        Ok(k.to_vec())
    }));
    v.push(ep("crypto_secretstream_keygen", || {
        let mut k = [0u8; 32];
        dryoc::classic::crypto_secretstream_xchacha20poly1305::crypto_secretstream_xchacha20poly1305_keygen(&mut k);
        Ok(k.to_vec())
    }));
    v.push(ep("crypto_kdf_keygen", || Ok(dryoc::classic::crypto_kdf::crypto_kdf_keygen().to_vec())));
    v.push(ep("crypto_auth_keygen", || Ok(dryoc::classic::crypto_auth::crypto_auth_keygen().to_vec())));
    v.push(ep("crypto_onetimeauth_keygen", || Ok(dryoc::classic::crypto_onetimeauth::crypto_onetimeauth_keygen().to_vec())));
    v.push(ep("crypto_shorthash_keygen", || Ok(dryoc::classic::crypto_shorthash::crypto_shorthash_keygen().to_vec())));
    v.push(ep("crypto_generichash_keygen", || Ok(dryoc::classic::crypto_generichash::crypto_generichash_keygen().to_vec())));
    v.push(ep("KeyPair::gen", || {
        let kp = dryoc::keypair::KeyPair::<StackByteArray<32>, StackByteArray<32>>::gen();
        pair_ok(&kp.public_key, &kp.secret_key)?;
        Ok([kp.public_key.to_vec(), kp.secret_key.to_vec()].concat())
    }));
    v.push(ep("KeyPair::gen_with_defaults", || {
        let kp = dryoc::keypair::StackKeyPair::gen_with_defaults();
        pair_ok(&kp.public_key, &kp.secret_key)?;
        Ok([kp.public_key.to_vec(), kp.secret_key.to_vec()].concat())
    }));
    v.push(ep("SigningKeyPair::gen", || {
        let kp = dryoc::sign::SigningKeyPair::<StackByteArray<32>, StackByteArray<64>>::gen();
        sign_pair_ok(&kp.public_key, &kp.secret_key)?;
        Ok([&kp.public_key[..], &kp.secret_key[..32]].concat())
    }));
    v.push(ep("SigningKeyPair::gen_with_defaults", || {
        let kp = dryoc::sign::SigningKeyPair::gen_with_defaults();
        sign_pair_ok(&kp.public_key, &kp.secret_key)?;
        Ok([&kp.public_key[..], &kp.secret_key[..32]].concat())
    }));
    v.push(ep("Kdf::gen", || {
        let (k, c) = dryoc::kdf::Kdf::<StackByteArray<32>, StackByteArray<8>>::gen().into_parts();
        Ok([k.to_vec(), c.to_vec()].concat())
    }));
    v.push(ep("Kdf::gen_with_defaults", || {
        let (k, c) = dryoc::kdf::StackKdf::gen_with_defaults().into_parts();
        Ok([k.to_vec(), c.to_vec()].concat())
    }));
    v.push(ep("crypto_secretstream init_push header", || {
        use dryoc::classic::crypto_secretstream_xchacha20poly1305 as css;
        let mut st = css::State::new();
        let mut h = [0u8; 24];
        css::crypto_secretstream_xchacha20poly1305_init_push(&mut st, &mut h, &[7u8; 32]);
        Ok(h.to_vec())
    }));
    v.push(ep("DryocStream::init_push header", || {
        let (_s, h): (_, StackByteArray<24>) = dryoc::dryocstream::DryocStream::init_push(&[7u8; 32]);
        Ok(h.to_vec())
    }));
    v.push(ep("crypto_box_seal ephemeral key", || {
        let rpk = sodium::scalarmult_base(&[5u8; 32]);
        let mut c = vec![0u8; 3 + 48];
        dryoc::classic::crypto_box::crypto_box_seal(&mut c, b"abc", &rpk).map_err(|e| format!("{e:?}"))?;
        Ok(c[..32].to_vec())
    }));
    v.push(ep("DryocBox::seal ephemeral key", || {
        let rpk = sodium::scalarmult_base(&[5u8; 32]);
        let b = dryoc::dryocbox::DryocBox::seal_to_vecbox(b"abc", &rpk.into()).map_err(|e| format!("{e:?}"))?;
        Ok(b.to_vec()[..32].to_vec())
    }));
    v.push(ep_slow("PwHash::hash salt (object API)", || {
        let cfg = dryoc::pwhash::Config::interactive().with_opslimit(1).with_memlimit(8192);
        let h = dryoc::pwhash::PwHash::<Vec<u8>, Vec<u8>>::hash(&b"pw".to_vec(), cfg).map_err(|e| format!("{e:?}"))?;
        let (_, salt, _) = h.into_parts();
        Ok(salt)
    }));
    v.push(ep_slow("PwHash::hash salt (24-byte salt config)", || {
        let cfg = dryoc::pwhash::Config::interactive().with_opslimit(1).with_memlimit(8192).with_salt_length(24);
        let h = dryoc::pwhash::PwHash::<Vec<u8>, Vec<u8>>::hash(&b"pw".to_vec(), cfg).map_err(|e| format!("{e:?}"))?;
        let (_, salt, _) = h.into_parts();
        Ok(salt)
    }));
    v.push(ep_slow("PwHash::hash salt (300-byte salt config)", || {
        let cfg = dryoc::pwhash::Config::interactive().with_opslimit(1).with_memlimit(8192).with_salt_length(300);
        let h = dryoc::pwhash::PwHash::<Vec<u8>, Vec<u8>>::hash(&b"pw".to_vec(), cfg).map_err(|e| format!("{e:?}"))?;
        let (_, salt, _) = h.into_parts();
        Ok(salt)
    }));
    v.push(ep_slow("crypto_pwhash_str salt (string API)", || {
        let s = dryoc::classic::crypto_pwhash::crypto_pwhash_str(b"pw", 1, 8192).map_err(|e| format!("{e:?}"))?;
        let parts: Vec<&str> = s.split('$').collect();
        if parts.len() != 6 {
            return Err(format!("unexpected string layout {s}"));
        }
        base64::engine::general_purpose::STANDARD_NO_PAD.decode(parts[4]).map_err(|e| format!("salt base64: {e}"))
    }));
    v
}

#[cfg(feature = "nightly")]
pub fn nightly_entry_points() -> Vec<EntryPoint> {
    use dryoc::protected::*;
    let mut v: Vec<EntryPoint> = vec![];
    v.push(ep("HeapByteArray<32>::gen", || Ok(HeapByteArray::<32>::gen().to_vec())));
    v.push(ep("HeapByteArray<24>::gen", || Ok(HeapByteArray::<24>::gen().to_vec())));
    v.push(ep("HeapByteArray<32>::gen_locked", || Ok(HeapByteArray::<32>::gen_locked().map_err(|e| format!("{e:?}"))?.as_slice().to_vec())));
    v.push(ep("HeapByteArray<32>::gen_readonly_locked", || Ok(HeapByteArray::<32>::gen_readonly_locked().map_err(|e| format!("{e:?}"))?.as_slice().to_vec())));
    v.push(ep("Locked<HeapByteArray<32>> as NewByteArray::gen", || Ok(<Locked<HeapByteArray<32>> as NewByteArray<32>>::gen().as_slice().to_vec())));
    v.push(ep("KeyPair::gen_locked_keypair", || {
        let kp = dryoc::keypair::KeyPair::gen_locked_keypair().map_err(|e| format!("{e:?}"))?;
        pair_ok(kp.public_key.as_slice(), kp.secret_key.as_slice())?;
        Ok([kp.public_key.as_slice(), kp.secret_key.as_slice()].concat())
    }));
    v.push(ep("KeyPair::gen_readonly_locked_keypair", || {
        let kp = dryoc::keypair::KeyPair::gen_readonly_locked_keypair().map_err(|e| format!("{e:?}"))?;
        pair_ok(kp.public_key.as_slice(), kp.secret_key.as_slice())?;
        Ok([kp.public_key.as_slice(), kp.secret_key.as_slice()].concat())
    }));
    v.push(ep("SigningKeyPair::gen_locked_keypair", || {
        let kp = dryoc::sign::SigningKeyPair::gen_locked_keypair().map_err(|e| format!("{e:?}"))?;
        sign_pair_ok(kp.public_key.as_slice(), kp.secret_key.as_slice())?;
        Ok([kp.public_key.as_slice(), &kp.secret_key.as_slice()[..32]].concat())
    }));
    v.push(ep("SigningKeyPair::gen_readonly_locked_keypair", || {
        let kp = dryoc::sign::SigningKeyPair::gen_readonly_locked_keypair().map_err(|e| format!("{e:?}"))?;
        sign_pair_ok(kp.public_key.as_slice(), kp.secret_key.as_slice())?;
        Ok([kp.public_key.as_slice(), &kp.secret_key.as_slice()[..32]].concat())
    }));
    v.push(ep("Kdf<Locked>::gen", || {
        let (k, c) = dryoc::kdf::Kdf::<Locked<HeapByteArray<32>>, Locked<HeapByteArray<8>>>::gen().into_parts();
        Ok([k.as_slice(), c.as_slice()].concat())
    }));
    v.push(ep("DryocStream::init_push locked header", || {
        let key = HeapByteArray::<32>::gen_readonly_locked().map_err(|e| format!("{e:?}"))?;
        let (_s, h): (_, Locked<HeapByteArray<24>>) = dryoc::dryocstream::DryocStream::init_push(&key);
        Ok(h.as_slice().to_vec())
    }));
    v.push(ep_slow("LockedPwHash::hash salt", || {
        let cfg = dryoc::pwhash::Config::interactive().with_opslimit(1).with_memlimit(8192);
        let h = dryoc::pwhash::PwHash::<Locked<HeapBytes>, Locked<HeapBytes>>::hash(&b"pw".to_vec(), cfg).map_err(|e| format!("{e:?}"))?;
        let (_, salt, _) = h.into_parts();
        Ok(salt.as_slice().to_vec())
    }));
    v
}

/// allowed number of colliding pairs for N values of `len` bytes so that the false-alarm
/// probability stays below 2^-100: smallest c with (N^2 / 2^(8 len + 1))^(c+1) < 2^-100
fn allowed_collisions(n: usize, len: usize) -> usize {
    let log2_p = 2.0 * (n as f64).log2() - (8.0 * len as f64 + 1.0);
    if log2_p >= 0.0 {
        return usize::MAX;
    }
    let mut c = 0usize;
    while (c as f64 + 1.0) * log2_p >= -100.0 {
        c += 1;
    }
    c
}

pub fn screen(name: &str, values: &[Vec<u8>]) -> Result<usize, String> {
    let n = values.len();
    let len = values[0].len();
    if values.iter().any(|v| v.len() != len) {
        return Err(format!("{name}: output length varies between calls"));
    }
    if len == 0 {
        return Err(format!("{name}: empty output"));
    }
    if len >= 16 {
        if let Some(i) = values.iter().position(|v| v.iter().all(|b| *b == 0)) {
            return Err(format!("{name}: call {i} returned an all-zero value ({len} bytes)"));
        }
    }
    let mut seen: HashMap<&[u8], usize> = HashMap::new();
    let mut colliding_pairs = 0usize;
    for v in values {
        let e = seen.entry(v.as_slice()).or_insert(0);
        colliding_pairs += *e;
        *e += 1;
    }
    let allowed = allowed_collisions(n, len);
    if colliding_pairs > allowed {
        let rep = seen.iter().find(|(_, c)| **c > 1).map(|(v, c)| format!("{} seen {c} times", hx(v))).unwrap_or_default();
        return Err(format!("{name}: {colliding_pairs} repeated values among {n} calls (allowed {allowed}); e.g. {rep}"));
    }
    for pos in 0..len {
        let distinct: HashSet<u8> = values.iter().map(|v| v[pos]).collect();
        if distinct.len() == 1 {
            return Err(format!("{name}: byte {pos} is constant ({:#04x}) across {n} calls", values[0][pos]));
        }
        if n >= 64 && distinct.len() < 16 {
            return Err(format!("{name}: byte {pos} takes only {} distinct values across {n} calls", distinct.len()));
        }
    }
    Ok(seen.len())
}

pub fn run(ctx: &mut Ctx) -> Result<(), Violation> {
    let nightly_part = cfg!(feature = "nightly") && std::env::var("VERIF_PART").as_deref() == Ok("nightly");
    ctx.rule = "History = N calls (quick 1 024; thorough 524 288 for outputs up to 64 bytes, which makes a generator confined to a 2^32-value space collide with certainty) to each randomised entry point (gen for stack/array/Vec containers of 8/16/24/32/64 bytes, randombytes_buf, copy_randombytes, every *_keygen and *_keypair in classic and object modules, Kdf::gen, the stream header from classic and object init_push, the sealed-box ephemeral key from crypto_box_seal and DryocBox::seal, the salt of PwHash::hash (16- and 24-byte) and of crypto_pwhash_str decoded from the string; heap/locked generators in the nightly sub-run), interleaved across entry points by a seeded schedule; the in-place generators are additionally driven on one never-reset caller buffer. Oracle per entry point: no all-zero value (outputs >= 16 bytes); at most c colliding pairs with c derived so that the false-alarm probability is < 2^-100 (0 for >= 16 bytes); no byte position constant across the N values; every byte position takes >= 16 distinct values (N >= 64); key pairs satisfy pk = base(sk) / derive from their seed. Non-trivial: an entry point for which all N calls completed with N distinct values; distinct = number of distinct values observed (measured, summed); evaluations = total calls. The subject is OS randomness, so values differ between runs; VERIF_SEED only fixes the interleaving.".into();
    ctx.assumptions = vec![
        "statistical screening detects constant, zero, repeated, partially filled or low-entropy outputs; it cannot establish independence or unpredictability".into(),
        "false-alarm probability per run < 2^-100 by construction of the thresholds".into(),
    ];
    #[cfg(feature = "nightly")]
    let eps = if nightly_part { nightly_entry_points() } else { entry_points() };
    #[cfg(not(feature = "nightly"))]
    let eps = entry_points();
    let _ = nightly_part;
    let n_fast = ctx.tier.pick(1024usize, 524288);
    let n_slow = ctx.tier.pick(192usize, 12288);
    // seeded interleaving: a shuffled schedule of (entry index) tokens, executed by 16 workers
    let mut schedule: Vec<usize> = vec![];
    for (i, e) in eps.iter().enumerate() {
        // large outputs get proportionally fewer calls (memory): at most 2^25 bytes of values per entry point
        let outlen = no_panic(|| (e.call)()).ok().and_then(|r| r.ok()).map_or(64, |v| v.len().max(1));
        let cap = ((1usize << 25) / outlen).max(1024);
        for _ in 0..if e.slow { n_slow } else { n_fast.min(cap) } {
            schedule.push(i);
        }
    }
    let mut f = ctx.fill("schedule");
    for i in (1..schedule.len()).rev() {
        let j = f.below(i as u64 + 1) as usize;
        schedule.swap(i, j);
    }
    let results: Vec<std::sync::Mutex<Vec<Vec<u8>>>> = eps.iter().map(|_| std::sync::Mutex::new(vec![])).collect();
    let eps_ref = &eps;
    let res_ref = &results;
    ctx.par_each(&schedule, |_, &i, ev| {
        ev.eval(1);
        let v = no_panic(|| (eps_ref[i].call)())
            .map_err(|p| Violation::new("C11", "freshness", format!("{}: panicked: {p}", eps_ref[i].name), json!({"entry": eps_ref[i].name})))?
            .map_err(|m| Violation::new("C11", "freshness", format!("{}: {m}", eps_ref[i].name), json!({"entry": eps_ref[i].name})))?;
        res_ref[i].lock().unwrap().push(v);
        Ok(())
    })?;
    let mut idx = 0u64;
    for (e, r) in eps.iter().zip(results.iter()) {
        let vals = r.lock().unwrap();
        let distinct = screen(e.name, &vals).map_err(|m| Violation::new("C11", "freshness", m, json!({"entry": e.name})))?;
        ctx.ev.class_n(&format!("{} [{} bytes]", e.name, vals[0].len()), vals.len() as u64);
        for k in 0..distinct as u64 {
            ctx.ev.nontrivial((idx << 32) | k | if nightly_part { 1 << 62 } else { 0 });
        }
        idx += 1;
        if ctx.ev.samples.len() < 10 {
            ctx.ev.samples.push(json!({"entry": e.name, "calls": vals.len(), "distinct": distinct, "first_values": vals.iter().take(2).map(|v| hx(v)).collect::<Vec<_>>()}));
        }
    }
    ctx.ev.extra.insert(if nightly_part { "entry_points_nightly".into() } else { "entry_points".into() }, json!(eps.len()));
    Ok(())
}

pub fn replay(v: &Violation) -> Result<(), String> {
    // the subject is OS randomness: re-run the named entry point's history
    let name = v.case["entry"].as_str().unwrap_or("").to_string();
    let mut eps = entry_points();
    #[cfg(feature = "nightly")]
    eps.extend(nightly_entry_points());
    for e in eps {
        if e.name == name {
            let n = if e.slow { 64 } else { 256 };
            let vals: Result<Vec<Vec<u8>>, String> = (0..n).map(|_| (e.call)()).collect();
            return screen(e.name, &vals?).map(|_| ());
        }
    }
    Err(format!("unknown entry point {name}"))
}
