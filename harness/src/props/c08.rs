//! C08 — incremental hash, MAC and signing equal the one-shot result for any chunking.
use crate::core::*;
use crate::sodium;
use dryoc::types::StackByteArray;
use serde::{Deserialize, Serialize};
use serde_json::json;

#[derive(Debug, Clone, Serialize, Deserialize, PartialEq)]
#[serde(tag = "iface")]
pub enum Iface {
    Gh { outlen: usize, key: Option<Hex>, object: bool },
    Auth { key: Hex, object: bool },
    Ota { key: Hex, object: bool },
    Sha { object: bool },
    Sign { seed: Hex, object: bool },
}

impl Iface {
    pub fn name(&self) -> String {
        match self {
            Iface::Gh { outlen, key, object } => format!(
                "generichash{}-{}-{}",
                if *object { "-obj" } else { "" },
                outlen,
                key.as_ref().map_or("unkeyed".to_string(), |k| format!("key{}", k.len()))
            ),
            Iface::Auth { object, .. } => format!("auth{}", if *object { "-obj" } else { "" }),
            Iface::Ota { object, .. } => format!("onetimeauth{}", if *object { "-obj" } else { "" }),
            Iface::Sha { object } => format!("sha512{}", if *object { "-obj" } else { "" }),
            Iface::Sign { object, .. } => format!("sign{}", if *object { "-obj" } else { "" }),
        }
    }
    pub fn block(&self) -> usize {
        match self {
            Iface::Ota { .. } => 16,
            _ => 128,
        }
    }
}

#[derive(Debug, Clone, Serialize, Deserialize)]
pub struct Case {
    pub iface: Iface,
    pub msg: Hex,
    /// sorted cut positions (repeats allowed => empty pieces); pieces = [0..c0], [c0..c1], ..., [ck..len]
    pub cuts: Vec<usize>,
}

fn a32(h: &Hex) -> Result<[u8; 32], String> {
    h.0.clone().try_into().map_err(|_| "key length".to_string())
}

macro_rules! gh_obj_inc {
    ($kl:expr, $ol:expr, $key:expr, $parts:expr) => {{
        use dryoc::generichash::GenericHash;
        let k: Option<[u8; $kl]> = $key.as_ref().map(|k| k.0.clone().try_into().unwrap());
        let mut h = GenericHash::<$kl, $ol>::new(k.as_ref()).map_err(|e| format!("GenericHash::new: {e:?}"))?;
        for p in $parts {
            h.update(*p);
        }
        h.finalize_to_vec().map_err(|e| format!("finalize: {e:?}"))
    }};
}

/// incremental result through dryoc
pub fn incremental(iface: &Iface, parts: &[&[u8]]) -> Result<Vec<u8>, String> {
    match iface {
        Iface::Gh { outlen, key, object: false } => {
            use dryoc::classic::crypto_generichash::*;
            let mut st = crypto_generichash_init(key.as_ref().map(|k| k.0.as_slice()), *outlen)
                .map_err(|e| format!("generichash_init: {e:?}"))?;
            for p in parts {
                crypto_generichash_update(&mut st, p);
            }
            let mut out = vec![0u8; *outlen];
            crypto_generichash_final(st, &mut out).map_err(|e| format!("generichash_final: {e:?}"))?;
            Ok(out)
        }
        Iface::Gh { outlen, key, object: true } => match (key.as_ref().map(|k| k.len()), *outlen) {
            (None, 16) => gh_obj_inc!(32, 16, key, parts),
            (None, 32) => gh_obj_inc!(32, 32, key, parts),
            (None, 64) => gh_obj_inc!(32, 64, key, parts),
            (Some(32), 32) => gh_obj_inc!(32, 32, key, parts),
            (Some(64), 64) => gh_obj_inc!(64, 64, key, parts),
            (Some(16), 16) => gh_obj_inc!(16, 16, key, parts),
            _ => Err("harness: no object instantiation for this shape".into()),
        },
        Iface::Auth { key, object } => {
            let k = a32(key)?;
            if *object {
                let mut a = dryoc::auth::Auth::new(k);
                for p in parts {
                    a.update(p);
                }
                Ok(a.finalize_to_vec())
            } else {
                use dryoc::classic::crypto_auth::*;
                let mut st = crypto_auth_init(&k);
                for p in parts {
                    crypto_auth_update(&mut st, p);
                }
                let mut out = [0u8; 32];
                crypto_auth_final(st, &mut out);
                Ok(out.to_vec())
            }
        }
        Iface::Ota { key, object } => {
            let k = a32(key)?;
            if *object {
                let mut a = dryoc::onetimeauth::OnetimeAuth::new(k);
                for p in parts {
                    a.update(p);
                }
                Ok(a.finalize_to_vec())
            } else {
                use dryoc::classic::crypto_onetimeauth::*;
                let mut st = crypto_onetimeauth_init(&k);
                for p in parts {
                    crypto_onetimeauth_update(&mut st, p);
                }
                let mut out = [0u8; 16];
                crypto_onetimeauth_final(st, &mut out);
                Ok(out.to_vec())
            }
        }
        Iface::Sha { object } => {
            if *object {
                let mut h = dryoc::sha512::Sha512::new();
                for p in parts {
                    h.update(*p);
                }
                Ok(h.finalize_to_vec())
            } else {
                use dryoc::classic::crypto_hash::*;
                let mut st = crypto_hash_sha512_init();
                for p in parts {
                    crypto_hash_sha512_update(&mut st, p);
                }
                let mut out = [0u8; 64];
                crypto_hash_sha512_final(st, &mut out);
                Ok(out.to_vec())
            }
        }
        Iface::Sign { seed, object } => {
            let (pk, sk) = sodium::sign_seed_keypair(&a32(seed)?);
            if *object {
                use dryoc::sign::IncrementalSigner;
                let mut s = IncrementalSigner::new();
                for p in parts {
                    s.update(p);
                }
                let sig: StackByteArray<64> = s.finalize(&sk).map_err(|e| format!("IncrementalSigner::finalize: {e:?}"))?;
                let mut v = IncrementalSigner::new();
                for p in parts {
                    v.update(p);
                }
                v.verify(&sig, &pk).map_err(|_| "IncrementalSigner::verify rejected the signature made over the same chunking")?;
                Ok(sig.to_vec())
            } else {
                use dryoc::classic::crypto_sign::*;
                let mut st = crypto_sign_init();
                for p in parts {
                    crypto_sign_update(&mut st, p);
                }
                let mut sig = [0u8; 64];
                crypto_sign_final_create(st, &mut sig, &sk).map_err(|e| format!("final_create: {e:?}"))?;
                let mut st = crypto_sign_init();
                for p in parts {
                    crypto_sign_update(&mut st, p);
                }
                crypto_sign_final_verify(st, &sig, &pk).map_err(|_| "crypto_sign_final_verify rejected the signature made over the same chunking")?;
                Ok(sig.to_vec())
            }
        }
    }
}

/// one-shot through dryoc (single update for signing: there is no one-shot prehashed call)
pub fn oneshot_dryoc(iface: &Iface, msg: &[u8]) -> Result<Vec<u8>, String> {
    match iface {
        Iface::Gh { outlen, key, .. } => {
            let mut out = vec![0u8; *outlen];
            dryoc::classic::crypto_generichash::crypto_generichash(&mut out, msg, key.as_ref().map(|k| k.0.as_slice()))
                .map_err(|e| format!("crypto_generichash: {e:?}"))?;
            Ok(out)
        }
        Iface::Auth { key, .. } => {
            let mut out = [0u8; 32];
            dryoc::classic::crypto_auth::crypto_auth(&mut out, msg, &a32(key)?);
            Ok(out.to_vec())
        }
        Iface::Ota { key, .. } => {
            let mut out = [0u8; 16];
            dryoc::classic::crypto_onetimeauth::crypto_onetimeauth(&mut out, msg, &a32(key)?);
            Ok(out.to_vec())
        }
        Iface::Sha { .. } => {
            let mut out = [0u8; 64];
            dryoc::classic::crypto_hash::crypto_hash_sha512(&mut out, msg);
            Ok(out.to_vec())
        }
        Iface::Sign { .. } => incremental(iface, &[msg]),
    }
}

pub fn oneshot_sodium(iface: &Iface, msg: &[u8]) -> Result<Vec<u8>, String> {
    Ok(match iface {
        Iface::Gh { outlen, key, .. } => sodium::generichash(*outlen, msg, key.as_ref().map(|k| k.0.as_slice())).ok_or("harness: sodium generichash")?,
        Iface::Auth { key, .. } => sodium::auth(msg, &a32(key)?).to_vec(),
        Iface::Ota { key, .. } => sodium::onetimeauth(msg, &a32(key)?).to_vec(),
        Iface::Sha { .. } => sodium::sha512(msg).to_vec(),
        Iface::Sign { seed, .. } => {
            let (_, sk) = sodium::sign_seed_keypair(&a32(seed)?);
            sodium::sign_ph_create(&[msg], &sk).to_vec()
        }
    })
}

pub fn split<'a>(msg: &'a [u8], cuts: &[usize]) -> Result<Vec<&'a [u8]>, String> {
    let mut parts = vec![];
    let mut prev = 0usize;
    for &c in cuts {
        if c < prev || c > msg.len() {
            return Err("harness: bad cuts".into());
        }
        parts.push(&msg[prev..c]);
        prev = c;
    }
    parts.push(&msg[prev..]);
    Ok(parts)
}

pub fn check_with_ref(iface: &Iface, msg: &[u8], cuts: &[usize], reference: &[u8]) -> Result<(), String> {
    let parts = split(msg, cuts)?;
    let inc = incremental(iface, &parts)?;
    if inc != reference {
        return Err(format!(
            "{}: incremental over cuts {:?} of a {}-byte message = {} but one-shot = {}",
            iface.name(),
            cuts,
            msg.len(),
            hx(&inc),
            hx(reference)
        ));
    }
    Ok(())
}

pub fn check(c: &Case) -> Result<(), String> {
    let one = oneshot_dryoc(&c.iface, &c.msg)?;
    let sod = oneshot_sodium(&c.iface, &c.msg)?;
    if one != sod {
        return Err(format!("{}: dryoc one-shot {} != libsodium one-shot {}", c.iface.name(), hx(&one), hx(&sod)));
    }
    check_with_ref(&c.iface, &c.msg, &c.cuts, &sod)
}

fn is_nontrivial(block: usize, len: usize, cuts: &[usize]) -> bool {
    // >= 2 non-empty pieces with an unaligned cut, or an empty piece between non-empty ones
    let mut bounds = vec![0usize];
    bounds.extend_from_slice(cuts);
    bounds.push(len);
    let sizes: Vec<usize> = bounds.windows(2).map(|w| w[1] - w[0]).collect();
    let nonempty = sizes.iter().filter(|s| **s > 0).count();
    let unaligned = cuts.iter().any(|c| *c % block != 0 && *c != 0 && *c != len);
    let first = sizes.iter().position(|s| *s > 0);
    let last = sizes.iter().rposition(|s| *s > 0);
    let inner_empty = match (first, last) {
        (Some(a), Some(b)) => sizes[a..=b].iter().any(|s| *s == 0),
        _ => false,
    };
    (nonempty >= 2 && unaligned) || inner_empty
}

pub fn ifaces(seed: u64) -> Vec<Iface> {
    let mut f = Fill::new(seed, "C08:keys");
    let k32 = Hex(f.bytes(32));
    let mut v = vec![];
    for object in [false, true] {
        v.push(Iface::Ota { key: Hex(f.bytes(32)), object });
        v.push(Iface::Sha { object });
        v.push(Iface::Auth { key: k32.clone(), object });
        v.push(Iface::Sign { seed: Hex(f.bytes(32)), object });
        v.push(Iface::Gh { outlen: 32, key: None, object });
        v.push(Iface::Gh { outlen: 64, key: Some(Hex(f.bytes(64))), object });
        v.push(Iface::Gh { outlen: 16, key: Some(Hex(f.bytes(16))), object });
    }
    v.push(Iface::Gh { outlen: 33, key: Some(Hex(f.bytes(17))), object: false });
    v
}

fn near_cuts(len: usize) -> Vec<usize> {
    let mut v: Vec<usize> = (0..=len)
        .filter(|&c| c <= 2 || c + 2 >= len || (126..=130).contains(&c) || (254..=258).contains(&c))
        .collect();
    v.dedup();
    v
}


/// object-API generic hash with a Vec key of `kl` bytes under several KEY_LENGTH parameters: one-shot vs incremental
pub fn veckey_case(seed: u64, kl: usize, ev: &mut Evidence) -> Result<(), Violation> {
    use dryoc::generichash::GenericHash;

            let mut f = Fill::new(seed, &format!("C08:veckey:{kl}"));
            let key: Vec<u8> = f.bytes(kl);
            for mlen in [0usize, 1, 127, 128, 129, 300] {
                let msg = f.bytes(mlen);
                macro_rules! one {
                    ($KL:expr, $OL:expr) => {{
                        let a = no_panic(|| GenericHash::<$KL, $OL>::hash_to_vec(&msg, Some(&key)).map_err(|e| format!("{e:?}")));
                        let b = no_panic(|| -> Result<Vec<u8>, String> {
                            let mut h = GenericHash::<$KL, $OL>::new(Some(&key)).map_err(|e| format!("{e:?}"))?;
                            h.update(&msg[..mlen / 2]);
                            h.update(&msg[mlen / 2..]);
                            h.finalize_to_vec().map_err(|e| format!("{e:?}"))
                        });
                        ev.eval(1);
                        match (a, b) {
                            (Ok(Ok(x)), Ok(Ok(y))) => {
                                ev.class("object generichash, Vec key: one-shot vs incremental");
                                ev.nontrivial(fnv64(&[b"veckey", &kl.to_le_bytes(), &mlen.to_le_bytes(), &[$KL as u8, $OL as u8]]));
                                if x != y {
                                    return Err(Violation::new("C08", "veckey", format!("GenericHash::<{}, {}> with a {kl}-byte Vec key, {mlen}-byte message: one-shot hash {} != incremental {}", $KL, $OL, hx(&x), hx(&y)), json!({"key_len": kl, "msg_len": mlen, "KL": $KL, "OL": $OL, "seed": seed})));
                                }
                            }
                            (Ok(Err(_)), Ok(Err(_))) => ev.class("object generichash, Vec key: both refuse"),
                            (Err(_), _) | (_, Err(_)) => ev.excluded("object generichash with a Vec key whose length differs from KEY_LENGTH panics (caller-side misuse; not judged)"),
                            (Ok(Ok(_)), Ok(Err(e))) | (Ok(Err(e)), Ok(Ok(_))) => {
                                return Err(Violation::new("C08", "veckey", format!("GenericHash::<{}, {}> with a {kl}-byte Vec key: one of one-shot / incremental succeeds and the other fails ({e})", $KL, $OL), json!({"key_len": kl, "msg_len": mlen, "KL": $KL, "OL": $OL, "seed": seed})));
                            }
                        }
                    }};
                }
                one!(16, 32);
                one!(32, 32);
                one!(32, 64);
                one!(64, 16);
            }
            Ok(())
}

pub fn run(ctx: &mut Ctx) -> Result<(), Violation> {
    ctx.rule = "Interfaces: generichash (classic+object; unkeyed/keyed; digest 16/32/33/64), auth, onetimeauth, sha512, incremental signing+verification (classic+object). Enumerated: EVERY 2-way split of every length 0..=L2; EVERY 3-way split (i<=j, empty pieces included) of every length 0..=L3 for the 16-byte-buffer interface, and for the 128-byte-buffer interfaces every pair of cut points within 2 of {0,128,256,len} (thorough: unrestricted 3-way up to L3); plus deterministic many-small-piece families (uniform pieces of every size 1..=K, ramps, alternating pairs, uniform after a short first piece) and, for the object-API generic hash, Vec keys of every length 16..=64 under each KEY_LENGTH (one-shot vs incremental); plus proptest-random k-way partitions (k<=120, piece sizes biased to {0,1,B-1,B,B+1,2B}) of messages up to 8 KiB with shrinking. Oracle: incremental == dryoc one-shot == libsodium one-shot on the concatenation; signatures additionally verify incrementally. Non-trivial: >=2 non-empty pieces with a cut that is not a multiple of the block size, or an empty piece between non-empty ones; distinct = (interface,len,cuts).".into();
    ctx.assumptions = vec!["libsodium one-shot functions are the reference for the concatenated message".into()];
    let ifs = ifaces(ctx.seed);
    let l2 = ctx.tier.pick(400usize, 600);
    let l3_small = ctx.tier.pick(200usize, 300);
    let l3_big_full = ctx.tier.pick(0usize, 300); // unrestricted 3-way for 128-byte buffers (thorough)
    let l3_near = 300usize;
    let mut items: Vec<(usize, usize)> = vec![];
    for (i, _) in ifs.iter().enumerate() {
        for len in 0..=l2.max(l3_near) {
            items.push((i, len));
        }
    }
    let seed = ctx.seed;
    let ifs_ref = &ifs;
    ctx.par_each(&items, |_, &(ii, len), ev| {
        let iface = &ifs_ref[ii];
        let name = iface.name();
        let block = iface.block();
        let is_sign = matches!(iface, Iface::Sign { .. });
        let msg = Fill::new(seed, &format!("C08:{ii}:{len}")).content(if len % 7 == 0 { 2 } else { 0 }, len);
        let one = oneshot_dryoc(iface, &msg).map_err(|m| Violation::new("C08", "chunking", m, json!({"iface": iface, "msg": hx(&msg), "cuts": []})))?;
        let sod = oneshot_sodium(iface, &msg).map_err(|m| Violation::new("C08", "chunking", m, json!({})))?;
        let mk = |cuts: &[usize], m: String| {
            Violation::new("C08", "chunking", m, serde_json::to_value(Case { iface: iface.clone(), msg: Hex(msg.clone()), cuts: cuts.to_vec() }).unwrap())
        };
        if one != sod {
            return Err(mk(&[], format!("{name}: dryoc one-shot != libsodium one-shot for length {len}")));
        }
        let mut visit = |cuts: &[usize], ev: &mut Evidence| -> Result<(), Violation> {
            ev.eval(1);
            if is_nontrivial(block, len, cuts) {
                ev.nontrivial(fnv64(&[name.as_bytes(), &len.to_le_bytes(), &cuts.iter().flat_map(|c| c.to_le_bytes()).collect::<Vec<u8>>()]));
            }
            check_with_ref(iface, &msg, cuts, &sod).map_err(|m| mk(cuts, m))
        };
        // 2-way (signing: only near cuts beyond 160 bytes to bound cost)
        if len <= l2 {
            for c in 0..=len {
                if is_sign && len > 160 && !(c <= 2 || c + 2 >= len || (126..=130).contains(&c) || (254..=258).contains(&c)) {
                    continue;
                }
                visit(&[c], ev)?;
                ev.class_n(&format!("{name}:2-way"), 1);
            }
        }
        // 3-way
        let full3 = if block == 16 { len <= l3_small } else { len <= l3_big_full && !is_sign };
        if full3 {
            for i in 0..=len {
                for j in i..=len {
                    visit(&[i, j], ev)?;
                }
            }
            ev.class_n(&format!("{name}:3-way-full"), ((len + 1) * (len + 2) / 2) as u64);
        } else if len <= l3_near && (!is_sign || len % 4 == 0 || len <= 140 || (250..=262).contains(&len)) {
            let cs = near_cuts(len);
            let mut n = 0u64;
            for (a, &i) in cs.iter().enumerate() {
                for &j in &cs[a..] {
                    visit(&[i, j], ev)?;
                    n += 1;
                }
            }
            ev.class_n(&format!("{name}:3-way-near-boundaries"), n);
        }
        if len == 129 || len == 17 {
            ev.sample(&format!("{name}-{len}"), || json!({"iface": name, "len": len, "cuts": [len / 2, len - 1], "msg_prefix": hx(&msg[..8.min(len)])}));
        }
        Ok(())
    })?;

    // many-small-pieces families: the same message as uniform pieces of every size k, ramps, alternating
    // pairs and uniform pieces after a short first piece (prefix sums hit every multiple of k, in particular
    // 64, 128 and 256 exactly, through long runs of updates that are each shorter than a block)
    let fam_lens: Vec<usize> = ctx.tier.pick(vec![300usize, 515, 1030], vec![257, 300, 512, 515, 777, 1030, 2051]);
    let kmax = ctx.tier.pick(130usize, 300);
    let mut fam_items: Vec<(usize, usize)> = vec![];
    for (i, _) in ifs.iter().enumerate() {
        for &l in &fam_lens {
            fam_items.push((i, l));
        }
    }
    ctx.par_each(&fam_items, |_, &(ii, len), ev| {
        let iface = &ifs_ref[ii];
        let name = iface.name();
        let msg = Fill::new(seed, &format!("C08:fam:{ii}:{len}")).bytes(len);
        let sod = oneshot_sodium(iface, &msg).map_err(|m| Violation::new("C08", "chunking", m, json!({})))?;
        let mut families: Vec<(String, Vec<usize>)> = vec![];
        let cuts_from = |sizes: &mut dyn Iterator<Item = usize>| -> Vec<usize> {
            let mut cuts = vec![];
            let mut pos = 0usize;
            for sz in sizes {
                if pos + sz >= len {
                    break;
                }
                pos += sz;
                cuts.push(pos);
            }
            cuts
        };
        for k in 1..=kmax.min(len) {
            families.push((format!("uniform-{k}"), cuts_from(&mut std::iter::repeat(k))));
        }
        families.push(("ramp-up".into(), cuts_from(&mut (1..))));
        families.push(("ramp-down".into(), cuts_from(&mut (1..=64usize).rev().cycle())));
        for (a, b) in [(1usize, 63usize), (63, 1), (15, 17), (13, 19), (31, 33), (7, 9), (0, 16), (16, 0)] {
            families.push((format!("alternating-{a}-{b}"), cuts_from(&mut [a, b].into_iter().cycle())));
        }
        for k in [16usize, 32, 64, 128] {
            for o in 0..k {
                families.push((format!("offset-{o}-then-uniform-{k}"), cuts_from(&mut std::iter::once(o).chain(std::iter::repeat(k)))));
            }
        }
        for (fname, cuts) in &families {
            ev.eval(1);
            ev.class(&format!("{name}:small-piece-families"));
            ev.nontrivial(fnv64(&[name.as_bytes(), fname.as_bytes(), &len.to_le_bytes()]));
            if fname == "uniform-16" {
                ev.sample(&format!("family-{}", ii % 4), || json!({"iface": name, "len": len, "family": fname, "pieces": cuts.len() + 1}));
            }
            check_with_ref(iface, &msg, cuts, &sod).map_err(|m| Violation::new("C08", "chunking", format!("[{fname}] {m}"), serde_json::to_value(Case { iface: iface.clone(), msg: Hex(msg.clone()), cuts: cuts.clone() }).unwrap()))?;
        }
        Ok(())
    })?;

    // Poly1305 with operands SOLVED so that the accumulator sits on carry / reduction boundaries after a block
    // (C07's adversarial generator): every block-aligned 2-way split and the uniform 16-byte chunking. A carry that
    // is pending exactly at an update-call boundary only exists for such values.
    {
        let adv = super::c07::poly_adversarial(seed, ctx.tier.pick(6_000, 200_000));
        ctx.par_each(&adv, |_, c, ev| {
            let super::c07::Case::Onetime { key, msg, .. } = c else { return Ok(()) };
            for object in [false, true] {
                let iface = Iface::Ota { key: key.clone(), object };
                let sod = oneshot_sodium(&iface, msg).map_err(|m| Violation::new("C08", "chunking", m, json!({})))?;
                let mut cutsets: Vec<Vec<usize>> = (1..=msg.len() / 16).map(|b| vec![b * 16]).collect();
                cutsets.push((1..=msg.len() / 16).map(|b| b * 16).collect());
                for cuts in cutsets {
                    ev.eval(1);
                    ev.class("onetimeauth: solved accumulator values x block-aligned splits");
                    ev.nontrivial(fnv64(&[b"adv", key, msg, &cuts.iter().flat_map(|x| x.to_le_bytes()).collect::<Vec<u8>>(), &[object as u8]]));
                    check_with_ref(&iface, msg, &cuts, &sod).map_err(|m| Violation::new("C08", "chunking", m, serde_json::to_value(Case { iface: iface.clone(), msg: msg.clone(), cuts: cuts.clone() }).unwrap()))?;
                }
            }
            Ok(())
        })?;
    }

    // object-API generic hash with Vec keys of EVERY length 16..=64 under each KEY_LENGTH parameter: the one-shot
    // `hash` and the incremental `new/update/finalize` must agree with each other (same inputs, same container)
    {
        let lens: Vec<usize> = (16..=64).collect();
        ctx.par_each(&lens, |_, &kl, ev| veckey_case(seed, kl, ev))?;
    }

    // random k-way partitions with shrinking
    use proptest::prelude::*;
    let nif = ifs.len();
    let piece = prop_oneof![
        3 => Just(0usize),
        2 => Just(1usize),
        1 => Just(15usize), 1 => Just(16usize), 1 => Just(17usize), 1 => Just(32usize),
        1 => Just(127usize), 2 => Just(128usize), 1 => Just(129usize), 1 => Just(256usize),
        3 => 0usize..700,
        6 => 1usize..64,
    ];
    let strat = (0..nif, proptest::collection::vec(piece, 0..120), any::<u64>(), 0usize..300);
    let n = ctx.tier.pick(40_000u32, 2_000_000);
    let ifs2 = ifs.clone();
    run_prop("C08", "chunking", seed, n, strat.prop_map(move |(ii, pieces, fill, tail)| {
        let mut cuts = vec![];
        let mut pos = 0usize;
        for p in pieces {
            if pos + p > 8192 {
                break;
            }
            pos += p;
            cuts.push(pos);
        }
        let len = (pos + tail).min(8192 + 300);
        let msg = Fill::new(fill, "C08:rand").bytes(len);
        Case { iface: ifs2[ii].clone(), msg: Hex(msg), cuts }
    }), &mut ctx.ev, |c, ev| {
        ev.eval(1);
        ev.class(&format!("{}:random-k-way", c.iface.name()));
        if is_nontrivial(c.iface.block(), c.msg.len(), &c.cuts) {
            ev.nontrivial(fnv64(&[c.iface.name().as_bytes(), &c.msg, &c.cuts.iter().flat_map(|x| x.to_le_bytes()).collect::<Vec<u8>>()]));
        }
        ev.sample(&format!("random-{}", c.cuts.len() % 5), || json!({"iface": c.iface.name(), "len": c.msg.len(), "cuts": c.cuts}));
        check(c)
    })?;
    ctx.ev.extra.insert("two_way_splits".into(), json!(format!("every split of every length 0..={l2} (complete)")));
    Ok(())
}

pub fn replay(v: &Violation) -> Result<(), String> {
    if v.kind == "veckey" {
        let mut ev = Evidence::default();
        return veckey_case(v.case["seed"].as_u64().unwrap_or(1), v.case["key_len"].as_u64().unwrap_or(32) as usize, &mut ev).map_err(|v| v.message);
    }
    let c: Case = from_case(&v.case)?;
    check(&c)
}
