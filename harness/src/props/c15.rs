//! C15 — see DESIGN.md §3; implemented by the shared protected-memory driver (props/prot.rs).
use crate::core::*;

#[cfg(feature = "nightly")]
pub fn run(ctx: &mut Ctx) -> Result<(), Violation> {
    ctx.rule = "Histories of create / fill with a non-zero pattern / resize up (reallocation) / resize down / clone / lock / unlock / protect / write / drop over plain HeapBytes and HeapByteArray<N>, Unlocked, Locked, LockedRO, UnlockedRO, NoAccess regions of lengths {1..8193}, plus library operations that build and drop protected outputs (locked secretbox/box/seal/stream/pwhash/kdf); canonical paths + proptest-random histories with shrinking, each in a forked process. Oracle: the feature-guarded release observer in PageAlignedAllocator::deallocate reports (address, layout size, non-zero byte count) immediately before free; every release must report 0 non-zero bytes over the WHOLE allocation (spare capacity included), and the multiset of releases must equal the multiset of allocations at the end. Non-trivial: history with >= 2 observed releases; distinct = hash(history).".into();
    ctx.assumptions = vec![
        "Linux only (/proc, mlock, mprotect); the process runs as root so RLIMIT_MEMLOCK is not enforced and lock refusal is injected by symbol interposition".into(),
        "page size 4096 (checked at run time)".into(),
    ];
    
    super::prot::run(ctx, super::prot::Which::C15)
}

#[cfg(feature = "nightly")]
pub fn replay(v: &Violation) -> Result<(), String> {
    super::prot::replay(v, super::prot::Which::C15)
}

#[cfg(not(feature = "nightly"))]
pub fn run(_ctx: &mut Ctx) -> Result<(), Violation> {
    eprintln!("C15 needs the nightly build configuration");
    std::process::exit(2);
}

#[cfg(not(feature = "nightly"))]
pub fn replay(_v: &Violation) -> Result<(), String> {
    Err("C15 needs the nightly build configuration".into())
}
