//! C13 — seeded key generation and Ed25519-to-X25519 conversion match libsodium.
use crate::core::*;
use crate::{models, sodium};
use dryoc::classic::crypto_box::{crypto_box_easy, crypto_box_seed_keypair, crypto_box_seed_keypair_inplace};
use dryoc::classic::crypto_kx::crypto_kx_seed_keypair;
use dryoc::classic::crypto_sign::{crypto_sign_seed_keypair, crypto_sign_seed_keypair_inplace};
use dryoc::classic::crypto_sign_ed25519::{crypto_sign_ed25519_pk_to_curve25519, crypto_sign_ed25519_sk_to_curve25519};
use dryoc::keypair::KeyPair;
use dryoc::pwhash::{Config, PwHash};
use dryoc::sign::SigningKeyPair;
use dryoc::types::*;
use serde::{Deserialize, Serialize};
use serde_json::json;

#[derive(Debug, Clone, Serialize, Deserialize)]
#[serde(tag = "kind")]
pub enum Case {
    BoxSeed { seed: Hex },
    KxSeed { seed: Hex },
    SignSeed { seed: Hex },
    FromSecretKey { sk: Hex },
    Derive { password: Hex, salt: Hex, ops: u64, mem: usize, #[serde(default)] cfg_hash_len: usize, #[serde(default)] cfg_salt_len: usize },
    Convert { seed: Hex, msg: Hex },
    /// derive a key pair with the configuration carried by a parsed password-hash string (may be Argon2i)
    DeriveFromParsed { password: Hex, salt: Hex, alg: i32, ops: u64, mem: usize },
    /// the three Config presets must carry libsodium's constants (checked through their serialised form)
    Presets,
}

fn a32(h: &[u8]) -> Result<[u8; 32], String> {
    h.try_into().map_err(|_| "need 32 bytes".to_string())
}

pub fn check(c: &Case) -> Result<(), String> {
    match c {
        Case::BoxSeed { seed } => {
            let (pk, sk) = crypto_box_seed_keypair(seed);
            let want_sk: [u8; 32] = sodium::sha512(seed)[..32].try_into().unwrap();
            if models::sha512(seed)[..32] != want_sk {
                return Err("harness: sha512 model".into());
            }
            let want_pk = sodium::scalarmult_base(&want_sk);
            if sk != want_sk || pk != want_pk {
                return Err(format!("crypto_box_seed_keypair(seed len {}) = ({}, {}) expected sk = SHA-512(seed)[..32] = {}, pk = {}", seed.len(), hx(&pk), hx(&sk), hx(&want_sk), hx(&want_pk)));
            }
            if seed.len() == 32 {
                let (rpk, rsk) = sodium::box_seed_keypair(&a32(seed)?);
                if (rpk, rsk) != (pk, sk) {
                    return Err("crypto_box_seed_keypair differs from libsodium for a 32-byte seed".into());
                }
            }
            let (mut pk2, mut sk2) = ([0xa5u8; 32], [0xa5u8; 32]);
            crypto_box_seed_keypair_inplace(&mut pk2, &mut sk2, seed);
            if (pk2, sk2) != (pk, sk) {
                return Err("crypto_box_seed_keypair_inplace differs from crypto_box_seed_keypair".into());
            }
            let kp: KeyPair<StackByteArray<32>, StackByteArray<32>> = KeyPair::from_seed(&seed.0);
            let kp2: KeyPair<Vec<u8>, [u8; 32]> = KeyPair::from_seed(&seed.0.as_slice());
            if kp.public_key.as_slice() != pk || kp.secret_key.as_slice() != sk || kp2.public_key != pk.to_vec() || kp2.secret_key != sk {
                return Err("KeyPair::from_seed differs from the classic function".into());
            }
            #[cfg(feature = "nightly")]
            {
                use dryoc::protected::*;
                let kp3: KeyPair<Locked<HeapByteArray<32>>, Locked<HeapByteArray<32>>> = KeyPair::from_seed(&seed.0);
                if kp3.public_key.as_slice() != pk || kp3.secret_key.as_slice() != sk {
                    return Err("locked KeyPair::from_seed differs".into());
                }
            }
            Ok(())
        }
        Case::KxSeed { seed } => {
            let s = a32(seed)?;
            let (pk, sk) = crypto_kx_seed_keypair(&s).map_err(|e| format!("crypto_kx_seed_keypair: {e:?}"))?;
            let (rpk, rsk) = sodium::kx_seed_keypair(&s);
            if (pk, sk) != (rpk, rsk) {
                return Err(format!("crypto_kx_seed_keypair({}) = ({}, {}) but libsodium = ({}, {})", hx(&s), hx(&pk), hx(&sk), hx(&rpk), hx(&rsk)));
            }
            if rsk[..] != models::blake2b_simple(32, &[], &s)[..] || rpk != models::x25519(&rsk, &{
                let mut n = [0u8; 32];
                n[0] = 9;
                n
            }) {
                return Err("harness: kx construction model".into());
            }
            Ok(())
        }
        Case::SignSeed { seed } => {
            let s = a32(seed)?;
            let (pk, sk) = crypto_sign_seed_keypair(&s);
            let (rpk, rsk) = sodium::sign_seed_keypair(&s);
            if pk != rpk || sk != rsk {
                return Err(format!("crypto_sign_seed_keypair({}) differs from libsodium", hx(&s)));
            }
            let (mut pk2, mut sk2) = ([0u8; 32], [0u8; 64]);
            crypto_sign_seed_keypair_inplace(&mut pk2, &mut sk2, &s);
            if pk2 != rpk || sk2 != rsk {
                return Err("crypto_sign_seed_keypair_inplace differs from libsodium".into());
            }
            let kp: SigningKeyPair<StackByteArray<32>, StackByteArray<64>> = SigningKeyPair::from_seed(&s);
            let kp2: SigningKeyPair<Vec<u8>, Vec<u8>> = SigningKeyPair::from_seed(&StackByteArray::<32>::from(s));
            let kp3: SigningKeyPair<[u8; 32], [u8; 64]> = SigningKeyPair::from_secret_key(rsk);
            if kp.public_key.as_slice() != rpk || kp.secret_key.as_slice() != rsk || kp2.public_key != rpk.to_vec() || kp2.secret_key != rsk.to_vec() || kp3.public_key != rpk || kp3.secret_key != rsk {
                return Err("SigningKeyPair::{from_seed, from_secret_key} differ from libsodium".into());
            }
            Ok(())
        }
        Case::FromSecretKey { sk } => {
            let s = a32(sk)?;
            let kp: KeyPair<StackByteArray<32>, StackByteArray<32>> = KeyPair::from_secret_key(StackByteArray::from(s));
            let want = sodium::scalarmult_base(&s);
            let mut nine = [0u8; 32];
            nine[0] = 9;
            if want != models::x25519(&s, &nine) {
                return Err("harness: base mult model".into());
            }
            if kp.public_key.as_slice() != want {
                return Err(format!("KeyPair::from_secret_key({}) public key {} expected {}", hx(&s), hx(&kp.public_key), hx(&want)));
            }
            if kp.secret_key.as_slice() != s {
                return Err("KeyPair::from_secret_key altered the secret key".into());
            }
            let kp2: KeyPair<[u8; 32], Vec<u8>> = KeyPair::from_secret_key(s.to_vec());
            if kp2.public_key != want {
                return Err("KeyPair<[u8;32],Vec>::from_secret_key differs".into());
            }
            Ok(())
        }
        Case::Derive { password, salt, ops, mem, cfg_hash_len, cfg_salt_len } => {
            // the key pair is defined by crypto_pwhash(32 bytes) + base-point multiplication; the hash/salt lengths
            // configured for password *hashes* must not influence it
            // builder calls in varying order / from different presets: every order must give the same configuration
            let mut cfg = match (*ops as usize + *mem) % 3 {
                0 => Config::interactive().with_opslimit(*ops).with_memlimit(*mem),
                1 => Config::moderate().with_memlimit(*mem).with_opslimit(*ops),
                _ => Config::sensitive().with_memlimit(*mem).with_salt_length(16).with_opslimit(*ops),
            };
            if *cfg_hash_len != 0 {
                cfg = cfg.with_hash_length(*cfg_hash_len);
            }
            if *cfg_salt_len != 0 {
                cfg = cfg.with_salt_length(*cfg_salt_len);
            }
            let kp: KeyPair<StackByteArray<32>, StackByteArray<32>> =
                PwHash::<Vec<u8>, Vec<u8>>::derive_keypair(&password.0, salt.0.clone(), cfg).map_err(|e| format!("derive_keypair: {e:?}"))?;
            let want_sk = if salt.len() == 16 {
                sodium::pwhash(32, password, &salt.0.clone().try_into().unwrap(), *ops, *mem, sodium::ALG_ARGON2ID13)
            } else {
                sodium::argon2_raw(sodium::ALG_ARGON2ID13, *ops as u32, (*mem / 1024) as u32, password, salt, 32)
            }
            .ok_or("harness: reference argon2 refused")?;
            let want_pk = sodium::scalarmult_base(&a32(&want_sk)?);
            if kp.secret_key.as_slice() != want_sk || kp.public_key.as_slice() != want_pk {
                return Err(format!("PwHash::derive_keypair(ops={ops}, mem={mem}, salt len {}, config hash_length {cfg_hash_len}, salt_length {cfg_salt_len}) differs from crypto_pwhash(32) + crypto_scalarmult_base", salt.len()));
            }
            Ok(())
        }
        Case::DeriveFromParsed { password, salt, alg, ops, mem } => {
            // obtain a Config the way a user can: parse a string, take its parts
            let s = sodium::argon2_encoded(*alg, *ops as u32, (*mem / 1024) as u32, b"x", &[9u8; 16], 32).ok_or("harness: encode")?;
            let (_, _, cfg) = PwHash::<Vec<u8>, Vec<u8>>::from_string(&s).map_err(|e| format!("from_string: {e:?}"))?.into_parts();
            let kp: KeyPair<StackByteArray<32>, StackByteArray<32>> = PwHash::<Vec<u8>, Vec<u8>>::derive_keypair(&password.0, salt.0.clone(), cfg).map_err(|e| format!("derive_keypair: {e:?}"))?;
            let want_sk = sodium::argon2_raw(*alg, *ops as u32, (*mem / 1024) as u32, password, salt, 32).ok_or("harness: reference argon2 refused")?;
            let want_pk = sodium::scalarmult_base(&a32(&want_sk)?);
            if kp.secret_key.as_slice() != want_sk || kp.public_key.as_slice() != want_pk {
                return Err(format!("PwHash::derive_keypair with the configuration of a parsed {} string differs from crypto_pwhash({}) + crypto_scalarmult_base", if *alg == 1 { "$argon2i$" } else { "$argon2id$" }, if *alg == 1 { "ARGON2I13" } else { "ARGON2ID13" }));
            }
            Ok(())
        }
        Case::Presets => {
            for (name, cfg, ops, mem) in [
                ("interactive", Config::interactive(), 2u64, 67108864u64),
                ("moderate", Config::moderate(), 3, 268435456),
                ("sensitive", Config::sensitive(), 4, 1073741824),
                ("default", Config::default(), 2, 67108864),
            ] {
                let v = serde_json::to_value(&cfg).map_err(|e| e.to_string())?;
                if v["opslimit"].as_u64() != Some(ops) || v["memlimit"].as_u64() != Some(mem) || v["salt_length"].as_u64() != Some(16) || v["hash_length"].as_u64() != Some(32) || v["algorithm"] != "Argon2id13" {
                    return Err(format!("Config::{name}() = {v} but libsodium's {name} preset is opslimit {ops}, memlimit {mem}, Argon2id, 16-byte salt"));
                }
            }
            Ok(())
        }
        Case::Convert { seed, msg } => {
            let s = a32(seed)?;
            let (epk, esk) = sodium::sign_seed_keypair(&s);
            let mut xpk = [0u8; 32];
            crypto_sign_ed25519_pk_to_curve25519(&mut xpk, &epk).map_err(|e| format!("pk_to_curve25519 refused an honest key: {e:?}"))?;
            let mut xsk = [0u8; 32];
            crypto_sign_ed25519_sk_to_curve25519(&mut xsk, &esk);
            let rxpk = sodium::ed_pk_to_curve(&epk).ok_or("harness: libsodium refused an honest key")?;
            let rxsk = sodium::ed_sk_to_curve(&esk);
            if xpk != rxpk {
                return Err(format!("crypto_sign_ed25519_pk_to_curve25519({}) = {} but libsodium = {}", hx(&epk), hx(&xpk), hx(&rxpk)));
            }
            if xsk != rxsk {
                return Err(format!("crypto_sign_ed25519_sk_to_curve25519 = {} but libsodium = {}", hx(&xsk), hx(&rxsk)));
            }
            // model: u = (1+y)/(1-y)
            let pt = models::ed_decode(&epk, true).ok_or("harness: decode")?;
            if models::ed_to_mont(&pt) != rxpk {
                return Err("harness: birational map model".into());
            }
            let mut nine = [0u8; 32];
            nine[0] = 9;
            if models::x25519(&xsk, &nine) != xpk || sodium::scalarmult_base(&xsk) != xpk {
                return Err("converted public key is not the base-point multiple of the converted secret key".into());
            }
            // a box made by dryoc with converted keys opens under libsodium with its converted keys
            let (opk, osk) = sodium::box_seed_keypair(&models::sha512(&s)[..32].try_into().unwrap());
            let nonce = [7u8; 24];
            let mut ct = vec![0u8; msg.len() + 16];
            crypto_box_easy(&mut ct, msg, &nonce, &opk, &xsk).map_err(|e| format!("{e:?}"))?;
            if sodium::box_open_easy(&ct, &nonce, &rxpk, &osk).as_deref() != Some(&msg[..]) {
                return Err("box sealed with dryoc-converted keys does not open under libsodium with its converted keys".into());
            }
            Ok(())
        }
    }
}

pub fn run(ctx: &mut Ctx) -> Result<(), Violation> {
    ctx.rule = "Enumerated: box seeds of EVERY length 0..=128 (+1 KiB) x fills x content classes through crypto_box_seed_keypair(_inplace) and KeyPair::from_seed (array/Vec/stack, locked on nightly); kx and signing seeds (random, zero, 0xff) through classic and object constructors; secret keys with every combination of the 5 clamped bits (x random bodies) through KeyPair::from_secret_key; PwHash::derive_keypair over (password, salt length 8..=32, ops 1..=3, mem 8..=64 KiB); honest Ed25519 pairs from seeds through both conversions. Oracle: libsodium constructions (SHA-512 + scalarmult_base; crypto_box/kx/sign_seed_keypair; crypto_pwhash or internal argon2id_hash_raw; crypto_sign_ed25519_{pk,sk}_to_curve25519), model cross-checks (BLAKE2b, X25519 ladder, birational map), consistency conv_pk = base(conv_sk), and a box made with converted keys opening under libsodium. Non-trivial: seed length != 32, unclamped secret key, derive or conversion case; distinct = input hash.".into();
    ctx.assumptions = vec!["libsodium constructions are the reference".into()];
    let seed = ctx.seed;
    let k = ctx.tier.pick(16usize, 128);
    let mut cases = vec![];
    for len in (0..=128usize).chain([1024usize]) {
        for fi in 0..k {
            cases.push(Case::BoxSeed { seed: Hex(Fill::new(seed, &format!("C13:box:{len}:{fi}")).content(fi, len)) });
        }
    }
    let n = ctx.tier.pick(8000usize, 1_500_000);
    for i in 0..n {
        let mut f = Fill::new(seed, &format!("C13:{i}"));
        let s = f.content(if i < 3 { i + 1 } else { 0 }, 32);
        cases.push(Case::KxSeed { seed: Hex(s.clone()) });
        cases.push(Case::SignSeed { seed: Hex(s.clone()) });
        if i < n / 2 + 3 {
            cases.push(Case::Convert { seed: Hex(s), msg: Hex(f.bytes(i % 40)) });
        }
    }
    for bits in 0u32..32 {
        for fi in 0..ctx.tier.pick(16, 128) {
            let mut sk: [u8; 32] = Fill::new(seed, &format!("C13:sk:{bits}:{fi}")).arr();
            // the 5 bits clamping touches: 0,1,2 of byte 0 and 6,7 of byte 31
            sk[0] = (sk[0] & 0xf8) | (bits & 7) as u8;
            sk[31] = (sk[31] & 0x3f) | (((bits >> 3) & 3) as u8) << 6;
            cases.push(Case::FromSecretKey { sk: Hex(sk.to_vec()) });
        }
    }
    for i in 0..ctx.tier.pick(700usize, 40_000) {
        let mut f = Fill::new(seed, &format!("C13:derive:{i}"));
        let saltlen = if i % 3 == 0 { 16 } else { 8 + i % 25 };
        let pwl = f.below(64) as usize;
        cases.push(Case::Derive { password: Hex(f.bytes(pwl)), salt: Hex(f.bytes(saltlen)), ops: 1 + (i % 3) as u64, mem: 8192 + 1024 * (i % 57) + [0, 1, 512, 1023][i % 4], cfg_hash_len: [0usize, 32, 16, 33, 64, 128, 31][i % 7], cfg_salt_len: [0usize, 16, 8, 24, 64][i % 5] });
    }
    // large pass counts at minimal memory (a narrowed pass counter wraps at 2^8 / 2^9 / 2^10)
    for (i, t) in [255u64, 256, 257, 258, 511, 513, 1025].into_iter().enumerate() {
        let mut f = Fill::new(seed, &format!("C13:derive-bigt:{i}"));
        cases.push(Case::Derive { password: Hex(f.bytes(7)), salt: Hex(f.bytes(16)), ops: t, mem: 8192, cfg_hash_len: 0, cfg_salt_len: 0 });
        cases.push(Case::DeriveFromParsed { password: Hex(f.bytes(7)), salt: Hex(f.bytes(16)), alg: 1 + (i % 2) as i32, ops: t, mem: 8192 });
    }
    cases.push(Case::Presets);
    for i in 0..ctx.tier.pick(200usize, 4000) {
        let mut f = Fill::new(seed, &format!("C13:parsed:{i}"));
        let pwl = f.below(40) as usize;
        cases.push(Case::DeriveFromParsed { password: Hex(f.bytes(pwl)), salt: Hex(f.bytes(8 + i % 24)), alg: 1 + (i % 2) as i32, ops: 1 + (i % 3) as u64, mem: 8192 + 1024 * (i % 40) });
    }
    if ctx.tier == Tier::Thorough {
        // one real preset (64 MiB, t = 2): the key pair of Config::interactive() equals libsodium's
        let mut f = Fill::new(seed, "C13:real");
        let (pw, salt) = (f.bytes(12), f.bytes(16));
        let kp: Result<KeyPair<StackByteArray<32>, StackByteArray<32>>, _> = PwHash::<Vec<u8>, Vec<u8>>::derive_keypair(&pw, salt.clone(), Config::interactive());
        let want = sodium::pwhash(32, &pw, &salt.clone().try_into().unwrap(), 2, 67108864, sodium::ALG_ARGON2ID13);
        ctx.ev.eval(1);
        ctx.ev.class("derive-keypair-real-interactive-preset");
        if kp.ok().map(|k| k.secret_key.to_vec()) != want {
            return Err(Violation::new("C13", "keygen-real-preset", "derive_keypair(Config::interactive()) differs from crypto_pwhash(OPSLIMIT_INTERACTIVE, MEMLIMIT_INTERACTIVE)", json!({"password": hx(&pw), "salt": hx(&salt)})));
        }
    }
    ctx.par_each(&cases, |_, c, ev| {
        ev.eval(1);
        let (label, nt) = match c {
            Case::BoxSeed { seed } => ("box-seed", seed.len() != 32),
            Case::KxSeed { .. } => ("kx-seed", false),
            Case::SignSeed { .. } => ("sign-seed", false),
            Case::FromSecretKey { sk } => ("from-secret-key", sk[0] & 7 != 0 || sk[31] & 0xc0 != 0x40),
            Case::Derive { .. } => ("derive-keypair", true),
            Case::Convert { .. } => ("ed25519-to-x25519", true),
            Case::DeriveFromParsed { .. } => ("derive-keypair-with-parsed-config", true),
            Case::Presets => ("config-presets", true),
        };
        ev.class(label);
        if nt {
            ev.nontrivial(fnv64(&[serde_json::to_string(c).unwrap().as_bytes()]));
        }
        ev.sample(label, || serde_json::to_value(c).unwrap());
        check(c).map_err(|m| Violation::new("C13", "keygen", m, serde_json::to_value(c).unwrap()))
    })?;
    ctx.ev.extra.insert("box_seed_lengths".into(), json!("0..=128 and 1024 (complete)"));
    Ok(())
}

pub fn replay(v: &Violation) -> Result<(), String> {
    if v.kind == "keygen-real-preset" {
        let pw = hex::decode(v.case["password"].as_str().unwrap_or("")).map_err(|e| e.to_string())?;
        let salt = hex::decode(v.case["salt"].as_str().unwrap_or("")).map_err(|e| e.to_string())?;
        let kp: KeyPair<StackByteArray<32>, StackByteArray<32>> = PwHash::<Vec<u8>, Vec<u8>>::derive_keypair(&pw, salt.clone(), Config::interactive()).map_err(|e| format!("{e:?}"))?;
        let want = sodium::pwhash(32, &pw, &salt.try_into().map_err(|_| "salt")?, 2, 67108864, sodium::ALG_ARGON2ID13).ok_or("harness")?;
        return if kp.secret_key.as_slice() == want { Ok(()) } else { Err("real preset derive differs".into()) };
    }
    let c: Case = from_case(&v.case)?;
    check(&c)
}
