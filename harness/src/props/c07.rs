//! C07 — hash, MAC and core primitives equal their specifications on every input.
use crate::core::*;
use crate::{models, sodium};
use dryoc::classic::crypto_auth::{crypto_auth, crypto_auth_verify};
use dryoc::classic::crypto_core::{crypto_core_hchacha20, crypto_core_hsalsa20};
use dryoc::classic::crypto_generichash::crypto_generichash;
use dryoc::classic::crypto_hash::crypto_hash_sha512;
use dryoc::classic::crypto_onetimeauth::{crypto_onetimeauth, crypto_onetimeauth_verify};
use dryoc::classic::crypto_shorthash::crypto_shorthash;
use dryoc::types::StackByteArray;
use num_bigint::BigUint;
use num_traits::{One, Zero};
use serde::{Deserialize, Serialize};
use serde_json::json;

#[derive(Debug, Clone, Serialize, Deserialize)]
#[serde(tag = "prim")]
pub enum Case {
    GenericHash { outlen: usize, key: Option<Hex>, msg: Hex },
    Sha512 { msg: Hex },
    Auth { key: Hex, msg: Hex, flips: bool },
    Onetime { key: Hex, msg: Hex, flips: bool, note: String },
    Short { key: Hex, msg: Hex },
    HSalsa { input: Hex, key: Hex, consts: Option<Hex> },
    HChaCha { input: Hex, key: Hex, consts: Option<Hex> },
    Increment { bytes: Hex },
}

fn arr<const N: usize>(h: &Hex) -> Result<[u8; N], String> {
    h.0.clone().try_into().map_err(|_| format!("bad length {} (want {N})", h.0.len()))
}

fn consts_tuple(c: &[u8; 16]) -> (u32, u32, u32, u32) {
    let w = |i: usize| u32::from_le_bytes(c[i * 4..i * 4 + 4].try_into().unwrap());
    (w(0), w(1), w(2), w(3))
}

macro_rules! gh_obj {
    ($kl:expr, $ol:expr, $key:expr, $msg:expr, $expect:expr) => {{
        use dryoc::generichash::GenericHash;
        let k: Option<[u8; $kl]> = $key.map(|k: &Vec<u8>| k.clone().try_into().unwrap());
        let o: Result<StackByteArray<$ol>, _> = GenericHash::<$kl, $ol>::hash($msg, k.as_ref());
        let o = o.map_err(|e| format!("GenericHash::<{},{}>::hash: {e:?}", $kl, $ol))?;
        if o.as_ref() as &[u8] != $expect {
            return Err(format!("GenericHash::<{},{}>::hash differs from reference", $kl, $ol));
        }
        let o2: Vec<u8> = GenericHash::<$kl, $ol>::hash_to_vec(&$msg.to_vec(), k.as_ref())
            .map_err(|e| format!("hash_to_vec: {e:?}"))?;
        if o2 != $expect {
            return Err(format!("GenericHash::<{},{}>::hash_to_vec differs from reference", $kl, $ol));
        }
        let mut h = GenericHash::<$kl, $ol>::new(k.as_ref()).map_err(|e| format!("GenericHash::new: {e:?}"))?;
        h.update($msg);
        let o3: Vec<u8> = h.finalize_to_vec().map_err(|e| format!("finalize: {e:?}"))?;
        if o3 != $expect {
            return Err(format!("GenericHash::<{},{}> incremental differs from reference", $kl, $ol));
        }
    }};
}

/// the same bytes at a different address: a copy that starts `off` bytes into a fresh 16-byte-aligned allocation
fn shifted(msg: &[u8], off: usize) -> (Vec<u128>, usize) {
    let words = (msg.len() + off + 15) / 16 + 1;
    let mut backing = vec![0u128; words];
    let bytes: &mut [u8] = unsafe { std::slice::from_raw_parts_mut(backing.as_mut_ptr() as *mut u8, words * 16) };
    bytes[off..off + msg.len()].copy_from_slice(msg);
    (backing, off)
}
fn shifted_slice<'a>(b: &'a (Vec<u128>, usize), len: usize) -> &'a [u8] {
    let bytes: &[u8] = unsafe { std::slice::from_raw_parts(b.0.as_ptr() as *const u8, b.0.len() * 16) };
    &bytes[b.1..b.1 + len]
}

pub fn check(c: &Case) -> Result<(), String> {
    match c {
        Case::GenericHash { outlen, key, msg } => {
            let keyb = key.as_ref().map(|k| k.0.as_slice());
            let mut out = vec![0u8; *outlen];
            let r = crypto_generichash(&mut out, msg, keyb);
            let in_range = (16..=64).contains(outlen) && keyb.map_or(true, |k| (16..=64).contains(&k.len()));
            let model_ok = (1..=64).contains(outlen) && keyb.map_or(true, |k| k.len() <= 64);
            match r {
                Err(e) => {
                    if in_range {
                        return Err(format!("crypto_generichash rejected in-range parameters: {e:?}"));
                    }
                    return Ok(());
                }
                Ok(()) => {
                    if !model_ok {
                        return Err("crypto_generichash accepted parameters BLAKE2b does not define".into());
                    }
                }
            }
            let m = models::blake2b_simple(*outlen, keyb.unwrap_or(&[]), msg);
            let s = sodium::generichash(*outlen, msg, keyb).ok_or("harness: libsodium refused")?;
            if s != m {
                return Err(format!("harness: libsodium {} != model {}", hx(&s), hx(&m)));
            }
            if out != s {
                return Err(format!(
                    "generichash(outlen={outlen}, keylen={:?}, msglen={}) = {} expected {}",
                    keyb.map(|k| k.len()),
                    msg.len(),
                    hx(&out),
                    hx(&s)
                ));
            }
            {
                let off = 1 + msg.len() % 15;
                let b = shifted(msg, off);
                let mut o2 = vec![0u8; *outlen];
                let _ = crypto_generichash(&mut o2, shifted_slice(&b, msg.len()), keyb);
                if o2 != s {
                    return Err(format!("generichash of a {}-byte input starting {off} bytes past a 16-byte boundary differs", msg.len()));
                }
            }
            // object API with a Vec key under a KEY_LENGTH parameter that differs from the key's length: the key IS
            // the Vec's bytes; if the call succeeds it must be the BLAKE2b of that key (never of a truncated one)
            if let Some(kv) = key.as_ref().map(|k| &k.0) {
                if kv.len() != 32 && *outlen == 32 {
                    use dryoc::generichash::GenericHash;
                    if let Ok(Ok(d)) = no_panic(|| GenericHash::<32, 32>::hash_to_vec(&msg.0, Some(kv))) {
                        if d != s {
                            return Err(format!("GenericHash::<32, 32>::hash with a {}-byte Vec key returned {} but BLAKE2b with that key is {}", kv.len(), hx(&d), hx(&s)));
                        }
                    }
                    if let Ok(Ok(d)) = no_panic(|| -> Result<Vec<u8>, dryoc::Error> {
                        let mut h = GenericHash::<32, 32>::new(Some(kv))?;
                        h.update(&msg.0);
                        h.finalize_to_vec()
                    }) {
                        if d != s {
                            return Err(format!("GenericHash::<32, 32>::new/update/finalize with a {}-byte Vec key returned {} but BLAKE2b with that key is {}", kv.len(), hx(&d), hx(&s)));
                        }
                    }
                }
            }
            // object API for the const-generic instantiations that match this shape
            let kl = keyb.map(|k| k.len());
            let kv = key.as_ref().map(|k| &k.0);
            let mm: &[u8] = &msg.0;
            match (kl, *outlen) {
                (None, 16) => gh_obj!(32, 16, None::<&Vec<u8>>, mm, s.as_slice()),
                (None, 32) => gh_obj!(32, 32, None::<&Vec<u8>>, mm, s.as_slice()),
                (None, 64) => gh_obj!(32, 64, None::<&Vec<u8>>, mm, s.as_slice()),
                (None, 33) => gh_obj!(32, 33, None::<&Vec<u8>>, mm, s.as_slice()),
                (Some(16), 16) => gh_obj!(16, 16, kv, mm, s.as_slice()),
                (Some(32), 32) => gh_obj!(32, 32, kv, mm, s.as_slice()),
                (Some(64), 64) => gh_obj!(64, 64, kv, mm, s.as_slice()),
                (Some(32), 64) => gh_obj!(32, 64, kv, mm, s.as_slice()),
                (Some(17), 33) => gh_obj!(17, 33, kv, mm, s.as_slice()),
                (Some(64), 16) => gh_obj!(64, 16, kv, mm, s.as_slice()),
                _ => {}
            }
            Ok(())
        }
        Case::Sha512 { msg } => {
            let mut out = [0u8; 64];
            crypto_hash_sha512(&mut out, msg);
            let s = sodium::sha512(msg);
            let m = models::sha512(msg);
            if s != m {
                return Err("harness: libsodium sha512 != model".into());
            }
            if out != s {
                return Err(format!("sha512(len {}) = {} expected {}", msg.len(), hx(&out), hx(&s)));
            }
            {
                let off = 1 + msg.len() % 15;
                let b = shifted(msg, off);
                let mut o2 = [0u8; 64];
                crypto_hash_sha512(&mut o2, shifted_slice(&b, msg.len()));
                if o2 != s {
                    return Err(format!("sha512 of a {}-byte input starting {off} bytes past a 16-byte boundary differs", msg.len()));
                }
            }
            let o: Vec<u8> = dryoc::sha512::Sha512::compute_to_vec(&msg.0);
            let o2: StackByteArray<64> = dryoc::sha512::Sha512::compute(msg.0.as_slice());
            let mut o3 = [0u8; 64];
            dryoc::sha512::Sha512::compute_into_bytes(&mut o3, msg.0.as_slice());
            if o != s || o2.as_ref() as &[u8] != s.as_slice() || o3 != s {
                return Err("Sha512 object API differs from reference".into());
            }
            Ok(())
        }
        Case::Auth { key, msg, flips } => {
            let k: [u8; 32] = arr(key)?;
            let mut mac = [0u8; 32];
            crypto_auth(&mut mac, msg, &k);
            let s = sodium::auth(msg, &k);
            let m = models::hmac_sha512_256(&k, msg);
            if s != m {
                return Err("harness: libsodium auth != model".into());
            }
            if mac != s {
                return Err(format!("crypto_auth(len {}) = {} expected {}", msg.len(), hx(&mac), hx(&s)));
            }
            crypto_auth_verify(&s, msg, &k).map_err(|_| "crypto_auth_verify rejected the correct tag")?;
            use dryoc::auth::Auth;
            let o: Vec<u8> = Auth::compute_to_vec(k, &msg.0);
            let o2: StackByteArray<32> = Auth::compute(StackByteArray::<32>::from(k), &msg.0);
            if o != s || o2.as_ref() as &[u8] != s.as_slice() {
                return Err("Auth::compute differs from reference".into());
            }
            Auth::compute_and_verify(&s, k, &msg.0).map_err(|_| "Auth::compute_and_verify rejected the correct tag")?;
            let mut a = Auth::new(k);
            a.update(&msg.0);
            a.verify(&s).map_err(|_| "Auth::verify rejected the correct tag")?;
            let positions: Vec<usize> = if *flips { (0..256).collect() } else { vec![msg.len() % 256, (msg.len() * 7 + 3) % 256] };
            for bit in positions {
                let mut bad = s;
                bad[bit / 8] ^= 1 << (bit % 8);
                if crypto_auth_verify(&bad, msg, &k).is_ok() {
                    return Err(format!("crypto_auth_verify accepted a tag with bit {bit} flipped"));
                }
                if sodium::auth_verify(&bad, msg, &k) {
                    return Err("harness: libsodium accepted flipped tag".into());
                }
                if Auth::compute_and_verify(&bad, k, &msg.0).is_ok() {
                    return Err(format!("Auth::compute_and_verify accepted a tag with bit {bit} flipped"));
                }
                let mut a = Auth::new(k);
                a.update(&msg.0);
                if a.verify(&bad).is_ok() {
                    return Err(format!("Auth::verify accepted a tag with bit {bit} flipped"));
                }
            }
            if *flips && msg.len() <= 130 {
                // every pair of flipped bits (a comparison that folds differences so that two of them can cancel
                // - XOR instead of OR, a sum, a word-wise reduction - accepts some of these)
                for b1 in 0..256usize {
                    for b2 in (b1 + 1)..256 {
                        let mut bad = s;
                        bad[b1 / 8] ^= 1 << (b1 % 8);
                        bad[b2 / 8] ^= 1 << (b2 % 8);
                        if crypto_auth_verify(&bad, msg, &k).is_ok() {
                            return Err(format!("crypto_auth_verify accepted a tag with bits {b1} and {b2} flipped"));
                        }
                        if Auth::compute_and_verify(&bad, k, &msg.0).is_ok() {
                            return Err(format!("Auth::compute_and_verify accepted a tag with bits {b1} and {b2} flipped"));
                        }
                        let mut a = Auth::new(k);
                        a.update(&msg.0);
                        if a.verify(&bad).is_ok() {
                            return Err(format!("Auth::verify accepted a tag with bits {b1} and {b2} flipped"));
                        }
                    }
                }
                // structured wrong tags: byte/word permutations and complements of the right tag
                let mut variants: Vec<[u8; 32]> = vec![];
                for r in 1..32 {
                    let mut t = s;
                    t.rotate_left(r);
                    variants.push(t);
                }
                let mut t = s;
                t.reverse();
                variants.push(t);
                variants.push(s.map(|b| !b));
                variants.push([0u8; 32]);
                variants.push([0xff; 32]);
                for bad in variants {
                    if bad == s {
                        continue;
                    }
                    let mut a = Auth::new(k);
                    a.update(&msg.0);
                    if crypto_auth_verify(&bad, msg, &k).is_ok() || Auth::compute_and_verify(&bad, k, &msg.0).is_ok() || a.verify(&bad).is_ok() {
                        return Err(format!("an HMAC verify function accepted the permuted / complemented tag {}", hx(&bad)));
                    }
                }
            }
            let mut f = Fill::new(fnv64(&[&k, msg]), "othertags");
            for _ in 0..if *flips { 32 } else { 2 } {
                let other: [u8; 32] = f.arr();
                if other != s && crypto_auth_verify(&other, msg, &k).is_ok() {
                    return Err("crypto_auth_verify accepted an unrelated tag".into());
                }
            }
            Ok(())
        }
        Case::Onetime { key, msg, flips, .. } => {
            let k: [u8; 32] = arr(key)?;
            let mut mac = [0u8; 16];
            crypto_onetimeauth(&mut mac, msg, &k);
            let s = sodium::onetimeauth(msg, &k);
            let m = models::poly1305(&k, msg);
            if s != m {
                return Err(format!("harness: libsodium poly1305 {} != model {}", hx(&s), hx(&m)));
            }
            if mac != s {
                return Err(format!(
                    "crypto_onetimeauth(key {}, msg {}) = {} expected {}",
                    hx(&k),
                    hx(msg),
                    hx(&mac),
                    hx(&s)
                ));
            }
            crypto_onetimeauth_verify(&s, msg, &k).map_err(|_| "crypto_onetimeauth_verify rejected the correct tag")?;
            use dryoc::onetimeauth::OnetimeAuth;
            let o: Vec<u8> = OnetimeAuth::compute_to_vec(k, &msg.0);
            let o2: StackByteArray<16> = OnetimeAuth::compute(StackByteArray::<32>::from(k), &msg.0);
            if o != s || o2.as_ref() as &[u8] != s.as_slice() {
                return Err("OnetimeAuth::compute differs from reference".into());
            }
            OnetimeAuth::compute_and_verify(&s, k, &msg.0).map_err(|_| "OnetimeAuth::compute_and_verify rejected the correct tag")?;
            let mut a = OnetimeAuth::new(k);
            a.update(&msg.0);
            a.verify(&s).map_err(|_| "OnetimeAuth::verify rejected the correct tag")?;
            let positions: Vec<usize> = if *flips { (0..128).collect() } else { vec![msg.len() % 128, (msg.len() * 7 + 3) % 128] };
            for bit in positions {
                let mut bad = s;
                bad[bit / 8] ^= 1 << (bit % 8);
                if crypto_onetimeauth_verify(&bad, msg, &k).is_ok() {
                    return Err(format!("crypto_onetimeauth_verify accepted a tag with bit {bit} flipped"));
                }
                if sodium::onetimeauth_verify(&bad, msg, &k) {
                    return Err("harness: libsodium accepted flipped tag".into());
                }
                if OnetimeAuth::compute_and_verify(&bad, k, &msg.0).is_ok() {
                    return Err(format!("OnetimeAuth::compute_and_verify accepted a tag with bit {bit} flipped"));
                }
                let mut a = OnetimeAuth::new(k);
                a.update(&msg.0);
                if a.verify(&bad).is_ok() {
                    return Err(format!("OnetimeAuth::verify accepted a tag with bit {bit} flipped"));
                }
            }
            if *flips && msg.len() <= 130 {
                for b1 in 0..128usize {
                    for b2 in (b1 + 1)..128 {
                        let mut bad = s;
                        bad[b1 / 8] ^= 1 << (b1 % 8);
                        bad[b2 / 8] ^= 1 << (b2 % 8);
                        if crypto_onetimeauth_verify(&bad, msg, &k).is_ok() {
                            return Err(format!("crypto_onetimeauth_verify accepted a tag with bits {b1} and {b2} flipped"));
                        }
                        if OnetimeAuth::compute_and_verify(&bad, k, &msg.0).is_ok() {
                            return Err(format!("OnetimeAuth::compute_and_verify accepted a tag with bits {b1} and {b2} flipped"));
                        }
                        let mut a = OnetimeAuth::new(k);
                        a.update(&msg.0);
                        if a.verify(&bad).is_ok() {
                            return Err(format!("OnetimeAuth::verify accepted a tag with bits {b1} and {b2} flipped"));
                        }
                    }
                }
                let mut variants: Vec<[u8; 16]> = vec![];
                for r in 1..16 {
                    let mut t = s;
                    t.rotate_left(r);
                    variants.push(t);
                }
                let mut t = s;
                t.reverse();
                variants.push(t);
                variants.push(s.map(|b| !b));
                variants.push([0u8; 16]);
                variants.push([0xff; 16]);
                for bad in variants {
                    if bad == s {
                        continue;
                    }
                    let mut a = OnetimeAuth::new(k);
                    a.update(&msg.0);
                    if crypto_onetimeauth_verify(&bad, msg, &k).is_ok() || OnetimeAuth::compute_and_verify(&bad, k, &msg.0).is_ok() || a.verify(&bad).is_ok() {
                        return Err(format!("a Poly1305 verify function accepted the permuted / complemented tag {}", hx(&bad)));
                    }
                }
            }
            Ok(())
        }
        Case::Short { key, msg } => {
            let k: [u8; 16] = arr(key)?;
            let mut out = [0u8; 8];
            crypto_shorthash(&mut out, msg, &k);
            let s = sodium::shorthash(msg, &k);
            let m = models::siphash24(&k, msg);
            if s != m {
                return Err("harness: libsodium shorthash != model".into());
            }
            if out != s {
                return Err(format!("crypto_shorthash(len {}) = {} expected {}", msg.len(), hx(&out), hx(&s)));
            }
            // the result must not depend on where the input lives (every alignment of the start address mod 16)
            for off in 0..16 {
                let b = shifted(msg, off);
                let mut o2 = [0u8; 8];
                crypto_shorthash(&mut o2, shifted_slice(&b, msg.len()), &k);
                if o2 != s {
                    return Err(format!("crypto_shorthash of a {}-byte input starting {off} bytes past a 16-byte boundary = {} expected {}", msg.len(), hx(&o2), hx(&s)));
                }
            }
            Ok(())
        }
        Case::HSalsa { input, key, consts } => {
            let (i, k): ([u8; 16], [u8; 32]) = (arr(input)?, arr(key)?);
            let cb: Option<[u8; 16]> = match consts {
                Some(c) => Some(arr(c)?),
                None => None,
            };
            let mut out = [0u8; 32];
            crypto_core_hsalsa20(&mut out, &i, &k, cb.as_ref().map(consts_tuple));
            let s = sodium::hsalsa20(&i, &k, cb.as_ref());
            let m = models::hsalsa20(&i, &k, cb.as_ref());
            if s != m {
                return Err("harness: libsodium hsalsa20 != model".into());
            }
            if out != s {
                return Err(format!("crypto_core_hsalsa20 = {} expected {}", hx(&out), hx(&s)));
            }
            Ok(())
        }
        Case::HChaCha { input, key, consts } => {
            let (i, k): ([u8; 16], [u8; 32]) = (arr(input)?, arr(key)?);
            let cb: Option<[u8; 16]> = match consts {
                Some(c) => Some(arr(c)?),
                None => None,
            };
            let mut out = [0u8; 32];
            crypto_core_hchacha20(&mut out, &i, &k, cb.as_ref().map(consts_tuple));
            let s = sodium::hchacha20(&i, &k, cb.as_ref());
            let m = models::hchacha20(&i, &k, cb.as_ref());
            if s != m {
                return Err("harness: libsodium hchacha20 != model".into());
            }
            if out != s {
                return Err(format!("crypto_core_hchacha20 = {} expected {}", hx(&out), hx(&s)));
            }
            Ok(())
        }
        Case::Increment { bytes } => {
            let mut a = bytes.0.clone();
            let mut b = bytes.0.clone();
            let mut c2 = bytes.0.clone();
            dryoc::utils::increment_bytes(&mut a);
            dryoc::utils::sodium_increment(&mut c2);
            if !b.is_empty() {
                sodium::increment(&mut b);
            }
            // model: little-endian integer + 1 mod 256^n
            let n = bytes.len();
            let mut m = vec![0u8; n];
            if n > 0 {
                let v = (BigUint::from_bytes_le(bytes) + BigUint::one()) % (BigUint::one() << (8 * n));
                let vb = v.to_bytes_le();
                if !v.is_zero() {
                    m[..vb.len()].copy_from_slice(&vb);
                }
            }
            if b != m {
                return Err("harness: sodium_increment != model".into());
            }
            if a != m || c2 != m {
                return Err(format!("increment_bytes({}) = {} expected {}", hx(bytes), hx(&a), hx(&m)));
            }
            Ok(())
        }
    }
}

/// Solve for a final 16-byte block so that the Poly1305 accumulator (mod p) after the last block equals
/// `target`. Returns None when the solution is not a valid full block value (needs bit 128 set: 1/4 chance).
pub fn poly_solve(key: &[u8; 32], prefix: &[u8], target: &BigUint) -> Option<Vec<u8>> {
    assert!(prefix.len() % 16 == 0);
    let p = models::poly_p();
    let r = models::poly_clamp_r(key);
    if r.is_zero() {
        return None;
    }
    let rinv = r.modpow(&(&p - BigUint::from(2u32)), &p);
    let prev = models::poly1305_acc(key, prefix);
    let x = ((target % &p) * rinv + &p - prev) % &p; // required block value incl. the 2^128 bit
    let lo = BigUint::one() << 128u32;
    let hi = BigUint::one() << 129u32;
    if x >= lo && x < hi {
        let v = x - lo;
        let mut b = v.to_bytes_le();
        b.resize(16, 0);
        Some(b)
    } else {
        None
    }
}

fn poly_targets() -> Vec<(String, BigUint)> {
    let p = models::poly_p();
    let one = BigUint::one();
    let mut t: Vec<(String, BigUint)> = vec![];
    for k in 0u32..=6 {
        t.push((format!("acc={k} (= p+{k} unreduced)"), BigUint::from(k)));
    }
    for k in 1u32..=3 {
        t.push((format!("acc=p-{k}"), &p - BigUint::from(k)));
    }
    for sh in [44u32, 64, 88, 128, 129] {
        t.push((format!("acc=2^{sh}-1"), (&one << sh) - &one));
        t.push((format!("acc=2^{sh}"), &one << sh));
    }
    t.push(("acc=2^130-6".into(), (&one << 130u32) - BigUint::from(6u32)));
    t
}

pub fn poly_adversarial(seed: u64, n: usize) -> Vec<Case> {
    let mut out = vec![];
    let mut f = Fill::new(seed, "C07:poly-adv");
    let targets = poly_targets();
    // fixed extreme keys
    let mut keys: Vec<([u8; 32], &str)> = vec![];
    let mut k = [0xffu8; 32];
    keys.push((k, "r clamped max, s=2^128-1"));
    k[16..].fill(0);
    keys.push((k, "r clamped max, s=0"));
    let mut k2 = [0u8; 32];
    k2[16..].fill(0xff);
    keys.push((k2, "r=0, s=2^128-1"));
    for limb in 0..4 {
        let mut k3 = [0u8; 32];
        k3[limb * 4..limb * 4 + 4].fill(0xff);
        k3[16..].fill(0xff);
        keys.push((k3, "single r limb maxed"));
    }
    for (key, note) in &keys {
        for len in [0usize, 1, 15, 16, 17, 31, 32, 33, 48, 64, 65, 127, 128, 255, 256] {
            for fillb in [0xffu8, 0x00, 0x01] {
                out.push(Case::Onetime { key: Hex(key.to_vec()), msg: Hex(vec![fillb; len]), flips: false, note: format!("{note}; msg all {fillb:#x}") });
            }
        }
    }
    // solved accumulators
    let mut made = 0usize;
    let mut tries = 0usize;
    while made < n && tries < n * 40 {
        tries += 1;
        let mut key: [u8; 32] = f.arr();
        match f.below(4) {
            0 => key[16..].fill(0xff),
            1 => {
                key[..16].fill(0xff);
            }
            _ => {}
        }
        let nb = f.below(4) as usize;
        let prefix = f.bytes(nb * 16);
        let (tn, tv) = &targets[f.below(targets.len() as u64) as usize];
        if let Some(last) = poly_solve(&key, &prefix, tv) {
            let mut msg = prefix.clone();
            msg.extend_from_slice(&last);
            // s chosen so that acc + s wraps 2^128 in a third of the cases
            if f.below(3) == 0 {
                let acc = models::poly1305_acc(&key, &msg);
                let low = acc & ((BigUint::one() << 128u32) - BigUint::one());
                let s = ((BigUint::one() << 128u32) - low) % (BigUint::one() << 128u32);
                let mut sb = s.to_bytes_le();
                sb.resize(16, 0);
                let delta = f.below(3) as u8; // land on 2^128-1, 2^128 (=0), 2^128+1
                key[16..].copy_from_slice(&sb);
                // adjust by delta-1
                let mut sv = BigUint::from_bytes_le(&key[16..]) + BigUint::from(delta) + ((BigUint::one() << 128u32) - BigUint::one());
                sv %= BigUint::one() << 128u32;
                let mut sb = sv.to_bytes_le();
                sb.resize(16, 0);
                key[16..].copy_from_slice(&sb);
            }
            out.push(Case::Onetime { key: Hex(key.to_vec()), msg: Hex(msg), flips: false, note: format!("solved: {tn}, {nb} prefix blocks") });
            made += 1;
        }
    }
    out
}

fn nontrivial(c: &Case) -> Option<u64> {
    match c {
        Case::GenericHash { outlen, key, msg } => {
            if msg.len() > 128 || *outlen != 32 || key.as_ref().map_or(false, |k| k.len() != 32) {
                Some(fnv64(&[b"gh", &[*outlen as u8], key.as_ref().map_or(&[][..], |k| &k.0), msg]))
            } else {
                None
            }
        }
        Case::Sha512 { msg } => (msg.len() > 128).then(|| fnv64(&[b"sha", msg])),
        Case::Auth { key, msg, .. } => (msg.len() > 128).then(|| fnv64(&[b"auth", key, msg])),
        Case::Onetime { key, msg, note, .. } => {
            (msg.len() > 16 || note.starts_with("solved") || note.contains("r ")).then(|| fnv64(&[b"ota", key, msg]))
        }
        Case::Short { key, msg } => (msg.len() > 8).then(|| fnv64(&[b"sh", key, msg])),
        Case::HSalsa { input, key, consts } => Some(fnv64(&[b"hs", input, key, consts.as_ref().map_or(&[][..], |c| &c.0)])),
        Case::HChaCha { input, key, consts } => Some(fnv64(&[b"hc", input, key, consts.as_ref().map_or(&[][..], |c| &c.0)])),
        Case::Increment { bytes } => (bytes.len() > 1).then(|| fnv64(&[b"inc", bytes])),
    }
}

fn label(c: &Case) -> &'static str {
    match c {
        Case::GenericHash { .. } => "generichash",
        Case::Sha512 { .. } => "sha512",
        Case::Auth { .. } => "auth",
        Case::Onetime { note, .. } => {
            if note.starts_with("solved") {
                "onetimeauth-solved-accumulator"
            } else if note.is_empty() {
                "onetimeauth"
            } else {
                "onetimeauth-extreme-operands"
            }
        }
        Case::Short { .. } => "shorthash",
        Case::HSalsa { .. } => "hsalsa20",
        Case::HChaCha { .. } => "hchacha20",
        Case::Increment { .. } => "increment",
    }
}

pub fn gen_cases(seed: u64, tier: Tier) -> Vec<Case> {
    let mut cases = vec![];
    let fills = tier.pick(8usize, 64);
    let maxlen = 1100usize;
    let flip_lens = [0usize, 1, 15, 16, 17, 63, 64, 65, 127, 128, 129, 1100];
    for len in 0..=maxlen {
        for fi in 0..fills {
            let mut f = Fill::new(seed, &format!("C07:{len}:{fi}"));
            let class = if fi == 0 { 0 } else { (len + fi) % 5 };
            let msg = f.content(class, len);
            let k32 = f.content(fi, 32);
            let k16 = f.content(fi, 16);
            cases.push(Case::Sha512 { msg: Hex(msg.clone()) });
            cases.push(Case::Auth { key: Hex(k32.clone()), msg: Hex(msg.clone()), flips: fi == 0 && flip_lens.contains(&len) });
            cases.push(Case::Onetime { key: Hex(f.bytes(32)), msg: Hex(msg.clone()), flips: fi == 0 && flip_lens.contains(&len), note: String::new() });
            cases.push(Case::Short { key: Hex(k16), msg: Hex(msg.clone()) });
            // generichash: special lengths get the full digest x key grid, others a seeded third
            let full_grid = [0usize, 1, 127, 128, 129, 255, 256, 257].contains(&len) && fi == 0;
            if full_grid {
                for outlen in 16..=64usize {
                    cases.push(Case::GenericHash { outlen, key: None, msg: Hex(msg.clone()) });
                    for kl in 16..=64usize {
                        if tier == Tier::Quick && (outlen + kl + len) % 4 != 0 && ![16, 32, 64].contains(&outlen) {
                            continue;
                        }
                        cases.push(Case::GenericHash { outlen, key: Some(Hex(f.content(fi + kl, kl))), msg: Hex(msg.clone()) });
                    }
                }
            } else {
                let n = tier.pick(3, 12);
                for j in 0..n {
                    let outlen = 16 + ((len * 7 + fi * 13 + j * 17) % 49);
                    let kl = 16 + ((len * 11 + fi * 5 + j * 23) % 49);
                    let key = if j % 3 == 0 { None } else { Some(Hex(f.content(j, kl))) };
                    cases.push(Case::GenericHash { outlen, key, msg: Hex(msg.clone()) });
                }
                // shapes served by the object API instantiations
                if fi == 0 {
                    for (kl, ol) in [(None, 16), (None, 32), (None, 64), (None, 33), (Some(16), 16), (Some(32), 32), (Some(64), 64), (Some(32), 64), (Some(17), 33), (Some(64), 16)] {
                        if (len + ol + kl.unwrap_or(0)) % tier.pick(4, 1) != 0 {
                            continue;
                        }
                        cases.push(Case::GenericHash { outlen: ol, key: kl.map(|k| Hex(f.bytes(k))), msg: Hex(msg.clone()) });
                    }
                }
            }
            if len <= 80 && fi == 0 {
                // out-of-range digest / key lengths
                let msg = Hex(f.bytes(len % 40));
                cases.push(Case::GenericHash { outlen: len, key: None, msg: msg.clone() });
                cases.push(Case::GenericHash { outlen: 32, key: Some(Hex(f.bytes(len))), msg: msg.clone() });
                cases.push(Case::GenericHash { outlen: len, key: Some(Hex(f.bytes(80 - len))), msg });
            }
            // increment: runs of 0xff at the low end / everywhere
            let mut b = f.content(class, len);
            let run = (len * 3 / 4).min(len);
            b[..run].fill(0xff);
            cases.push(Case::Increment { bytes: Hex(b) });
            cases.push(Case::Increment { bytes: Hex(vec![0xff; len]) });
            cases.push(Case::Increment { bytes: Hex(f.bytes(len)) });
            // every carry-chain length: a run of `r` low-order 0xff bytes followed by a byte that absorbs the carry
            if fi == 0 {
                let runs: Vec<usize> = if len <= 72 { (0..=len).collect() } else { vec![0, 1, 7, 8, 9, 15, 16, 17, 23, 24, 25, 31, 32, 63, 64, len / 2, len - 9, len - 8, len - 1, len] };
                for r in runs {
                    if r > len {
                        continue;
                    }
                    let mut b = f.bytes(len);
                    b[..r].fill(0xff);
                    if r < len {
                        b[r] = [0x00u8, 0x7f, 0xfe, 0x80][(r + len) % 4];
                    }
                    cases.push(Case::Increment { bytes: Hex(b.clone()) });
                    // and the same with everything above the absorbing byte saturated
                    if r + 1 < len {
                        b[r + 1..].fill(0xff);
                        cases.push(Case::Increment { bytes: Hex(b) });
                    }
                }
            }
        }
    }
    // core functions
    let ncore = tier.pick(20_000usize, 1_000_000);
    let mut f = Fill::new(seed, "C07:core");
    for i in 0..ncore {
        let cls = i % 7;
        let input = f.content(cls, 16);
        let key = f.content(cls / 2 + i % 3, 32);
        let consts = if i % 3 == 0 { None } else { Some(Hex(f.content(i % 4, 16))) };
        if i % 2 == 0 {
            cases.push(Case::HSalsa { input: Hex(input), key: Hex(key), consts });
        } else {
            cases.push(Case::HChaCha { input: Hex(input), key: Hex(key), consts });
        }
    }
    cases.extend(poly_adversarial(seed, tier.pick(30_000, 1_500_000)));
    cases
}

pub fn run(ctx: &mut Ctx) -> Result<(), Violation> {
    ctx.rule = "Deterministic enumeration: every input length 0..=1100 x content classes {random,0x00,0xff,counter,0x80..01} for SHA-512, HMAC-SHA-512-256, Poly1305, SipHash-2-4, BLAKE2b (full 49x(1+49) digest x key grid at lengths {0,1,127,128,129,255,256,257}, a seeded slice elsewhere, out-of-range lengths 0..=80), little-endian increment (carry runs, wrap), HSalsa20/HChaCha20 (default and custom constants); Poly1305 adversarial operands: extreme r/s, and messages whose last block is SOLVED with big-integer arithmetic so the accumulator lands on 0..6, p-1..p-3, 2^44/64/88/128/129 (+-1), 2^130-6, with s chosen to wrap 2^128. Inputs are also presented at every start-address alignment mod 16 (SipHash) / a length-derived misalignment (SHA-512, BLAKE2b); the object-API generic hash also gets Vec keys whose length differs from KEY_LENGTH (if accepted, the result must be BLAKE2b under the whole key). Oracle: dryoc == libsodium == harness spec model (3-way), verify accepts the right tag and rejects every single-bit flip, every two-bit flip, rotations / reversal / complement of the tag and random tags, in classic and object APIs. Non-trivial: input longer than one block of the primitive, adversarial Poly1305 operand, or non-default digest/key length; distinct = hash(primitive, params, input).".into();
    ctx.assumptions = vec![
        "libsodium 1.0.18 and the harness models (pinned by RFC/FIPS vectors at start-up) are independent correct references".into(),
        "BLAKE2b inputs >= 2^64 bytes are out of reach (excluded by the property)".into(),
    ];
    let cases = gen_cases(ctx.seed, ctx.tier);
    ctx.par_each(&cases, |_, c, ev| {
        ev.eval(1);
        let l = label(c);
        ev.class(l);
        if let Some(h) = nontrivial(c) {
            ev.nontrivial(h);
        }
        ev.sample(l, || {
            let mut v = serde_json::to_value(c).unwrap();
            if let Some(m) = v.get_mut("msg") {
                if m.as_str().map_or(false, |s| s.len() > 96) {
                    let s = m.as_str().unwrap();
                    *m = json!(format!("{}… ({} bytes)", &s[..96], s.len() / 2));
                }
            }
            v
        });
        check(c).map_err(|m| Violation::new("C07", "primitive", m, serde_json::to_value(c).unwrap()))
    })?;
    ctx.ev.extra.insert("input_lengths_enumerated".into(), json!("0..=1100 (complete, every primitive)"));
    Ok(())
}

pub fn replay(v: &Violation) -> Result<(), String> {
    let c: Case = from_case(&v.case)?;
    check(&c)
}
