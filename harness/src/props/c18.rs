//! C18 — results are independent of backend, build configuration and container type.
//! The same seeded corpus is evaluated by the harness built three ways (stable/default backend,
//! nightly, nightly + simd_backend); the transcripts must be identical line by line. Each build also
//! cross-checks libsodium in-process and (nightly builds) the container axis.
use crate::core::*;
use crate::sodium;
use dryoc::types::*;
use dryoc::types::ResizableBytes;
use serde_json::json;
use std::collections::BTreeMap;

pub struct Line {
    pub id: String,
    pub out: Vec<u8>,
    /// reference output where libsodium defines one
    pub reference: Option<Vec<u8>>,
    pub nontrivial: bool,
}

fn gh_inc(outlen: usize, key: Option<&[u8]>, parts: &[&[u8]]) -> Vec<u8> {
    use dryoc::classic::crypto_generichash::*;
    let mut st = crypto_generichash_init(key, outlen).expect("init");
    for p in parts {
        crypto_generichash_update(&mut st, p);
    }
    let mut o = vec![0u8; outlen];
    crypto_generichash_final(st, &mut o).expect("final");
    o
}

/// Run one iteration of the corpus. Every input in the corpus is valid, so an `Err` (the generator
/// unwraps) or a panic inside a build is itself a result: it is recorded as a line that matches no
/// reference, and the lines that iteration would have produced are missing from that build's
/// transcript (the comparison reports a case that only some builds could compute).
fn guarded(v: &mut Vec<Line>, id: String, f: impl FnOnce(&mut Vec<Line>)) {
    match no_panic(|| {
        let mut l = vec![];
        f(&mut l);
        l
    }) {
        Ok(l) => v.extend(l),
        Err(p) => {
            let msg: String = p.chars().map(|c| if c.is_control() { ' ' } else { c }).take(160).collect();
            v.push(Line { id: format!("{id}/FAILED: {msg} at {}", last_panic_loc()), out: b"FAILED".to_vec(), reference: Some(vec![]), nontrivial: false })
        }
    }
}

pub fn generate(seed: u64, tier: Tier) -> Vec<Line> {
    let mut vv: Vec<Line> = vec![];
    let maxlen = tier.pick(800usize, 1100);
    let fills = tier.pick(2usize, 64);
    // --- BLAKE2b one-shot + incremental, SHA-512, HMAC
    for len in 0..=maxlen {
        for fi in 0..fills {
            guarded(&mut vv, format!("generichash-family/{len}/{fi}"), |v| {
            let mut f = Fill::new(seed, &format!("C18:{len}:{fi}"));
            let msg = f.content(fi, len);
            let outlen = 16 + (len * 7 + fi * 13) % 49;
            let kl = 16 + (len * 11 + fi * 5) % 49;
            let key = f.bytes(kl);
            let keyopt = if (len + fi) % 3 == 0 { None } else { Some(key.as_slice()) };
            let mut o = vec![0u8; outlen];
            dryoc::classic::crypto_generichash::crypto_generichash(&mut o, &msg, keyopt).expect("generichash");
            v.push(Line { id: format!("generichash/{len}/{fi}/out{outlen}/key{}", keyopt.map_or(0, |k| k.len())), out: o, reference: sodium::generichash(outlen, &msg, keyopt), nontrivial: len > 128 });
            // chunkings: 2-way at a seeded cut, 3-way around block boundaries, many small pieces
            let c1 = if len == 0 { 0 } else { (f.below(len as u64 + 1)) as usize };
            let c2 = c1 + if len > c1 { f.below((len - c1) as u64 + 1) as usize } else { 0 };
            let inc = gh_inc(outlen, keyopt, &[&msg[..c1], &msg[c1..c2], &msg[c2..]]);
            v.push(Line { id: format!("generichash-inc3/{len}/{fi}/{c1}/{c2}"), out: inc, reference: sodium::generichash(outlen, &msg, keyopt), nontrivial: true });
            if fi == 0 {
                for cut in [128usize, 127, 129, 256, 255, 257, 1] {
                    if cut <= len {
                        let inc = gh_inc(64, None, &[&msg[..cut], &[], &msg[cut..]]);
                        v.push(Line { id: format!("generichash-inc-boundary/{len}/{cut}"), out: inc, reference: sodium::generichash(64, &msg, None), nontrivial: true });
                    }
                }
                let pieces: Vec<&[u8]> = msg.chunks(1 + len % 37).collect();
                let inc = gh_inc(32, Some(&key[..32.min(kl)].iter().chain([0u8; 32].iter()).copied().take(32).collect::<Vec<u8>>()), &pieces);
                let k32: Vec<u8> = key[..32.min(kl)].iter().chain([0u8; 32].iter()).copied().take(32).collect();
                v.push(Line { id: format!("generichash-inc-many/{len}"), out: inc, reference: sodium::generichash(32, &msg, Some(&k32)), nontrivial: true });
                let mut h = [0u8; 64];
                dryoc::classic::crypto_hash::crypto_hash_sha512(&mut h, &msg);
                v.push(Line { id: format!("sha512/{len}"), out: h.to_vec(), reference: Some(sodium::sha512(&msg).to_vec()), nontrivial: len > 128 });
                let k: [u8; 32] = f.arr();
                let mut mac = [0u8; 32];
                dryoc::classic::crypto_auth::crypto_auth(&mut mac, &msg, &k);
                v.push(Line { id: format!("auth/{len}"), out: mac.to_vec(), reference: Some(sodium::auth(&msg, &k).to_vec()), nontrivial: len > 128 });
            }
            });
        }
    }
    // --- kdf sweep
    for len in 16..=64usize {
        for (i, id) in [0u64, 1, 255, 1 << 32, u64::MAX].iter().enumerate() {
            guarded(&mut vv, format!("kdf/{len}/{id}"), |v| {
                let mut f = Fill::new(seed, &format!("C18:kdf:{len}:{i}"));
                let (key, cx): ([u8; 32], [u8; 8]) = (f.arr(), f.arr());
                let mut o = vec![0u8; len];
                dryoc::classic::crypto_kdf::crypto_kdf_derive_from_key(&mut o, *id, &cx, &key).expect("kdf");
                v.push(Line { id: format!("kdf/{len}/{id}"), out: o, reference: sodium::kdf_derive(len, *id, &cx, &key), nontrivial: len != 32 });
                // structured contents: all-zero / all-0xff keys and contexts (salt-only, personal-only parameter blocks)
                for (kc, cc) in [(0u8, 0u8), (0, 0xff), (0xff, 0), (0x5a, 0)] {
                    let key = if kc == 0x5a { key } else { [kc; 32] };
                    let cx = [cc; 8];
                    let mut o = vec![0u8; len];
                    dryoc::classic::crypto_kdf::crypto_kdf_derive_from_key(&mut o, *id, &cx, &key).expect("kdf");
                    v.push(Line { id: format!("kdf-const/{len}/{id}/key{kc:02x}/ctx{cc:02x}"), out: o, reference: sodium::kdf_derive(len, *id, &cx, &key), nontrivial: true });
                }
            });
        }
    }
    // --- Curve25519 / Ed25519 / box family
    let n = tier.pick(1000usize, 80_000);
    for i in 0..n {
        guarded(&mut vv, format!("curve-family/{i}"), |v| {
        let mut f = Fill::new(seed, &format!("C18:ec:{i}"));
        let (sa, sb): ([u8; 32], [u8; 32]) = (f.arr(), f.arr());
        let (apk, ask) = dryoc::classic::crypto_kx::crypto_kx_seed_keypair(&sa).expect("kx");
        let (rpk, rsk) = sodium::kx_seed_keypair(&sa);
        v.push(Line { id: format!("kx-seed-keypair/{i}"), out: [apk, ask].concat(), reference: Some([rpk, rsk].concat()), nontrivial: true });
        let (bpk, bsk) = sodium::kx_seed_keypair(&sb);
        let (mut rx, mut tx) = ([0u8; 32], [0u8; 32]);
        dryoc::classic::crypto_kx::crypto_kx_client_session_keys(&mut rx, &mut tx, &apk, &ask, &bpk).expect("kx");
        let r = sodium::kx_client(&apk, &ask, &bpk).map(|(a, b)| [a, b].concat());
        v.push(Line { id: format!("kx-client/{i}"), out: [rx, tx].concat(), reference: r, nontrivial: true });
        let pt: [u8; 32] = f.arr();
        let mut q = [0u8; 32];
        dryoc::classic::crypto_core::crypto_scalarmult(&mut q, &ask, &pt);
        v.push(Line { id: format!("scalarmult-random-point/{i}"), out: q.to_vec(), reference: sodium::scalarmult(&ask, &pt).map(|x| x.to_vec()), nontrivial: true });
        let msg = f.bytes(i % 300);
        let nonce: [u8; 24] = f.arr();
        let mut ct = vec![0u8; msg.len() + 16];
        dryoc::classic::crypto_box::crypto_box_easy(&mut ct, &msg, &nonce, &bpk, &ask).expect("box");
        v.push(Line { id: format!("box-easy/{i}"), out: ct, reference: sodium::box_easy(&msg, &nonce, &bpk, &ask), nontrivial: true });
        // sealed-box nonce derivation (BLAKE2b-24 over epk||rpk): open a reference-made sealed box
        let sealed = sodium::box_seal(&msg, &bpk);
        let mut out = vec![0u8; msg.len()];
        let ok = dryoc::classic::crypto_box::crypto_box_seal_open(&mut out, &sealed, &bpk, &bsk).is_ok();
        v.push(Line { id: format!("seal-open(nonce derivation)/{i}"), out: if ok { out } else { b"REJECTED".to_vec() }, reference: Some(msg.clone()), nontrivial: true });
        let (spk, ssk) = dryoc::classic::crypto_sign::crypto_sign_seed_keypair(&sa);
        let mut sig = [0u8; 64];
        dryoc::classic::crypto_sign::crypto_sign_detached(&mut sig, &msg, &ssk).expect("sign");
        v.push(Line { id: format!("sign-detached/{i}"), out: [&spk[..], &sig[..]].concat(), reference: Some([&spk[..], &sodium::sign_detached(&msg, &ssk)[..]].concat()), nontrivial: true });
        let mut st = dryoc::classic::crypto_sign::crypto_sign_init();
        let cut = msg.len() / 2;
        dryoc::classic::crypto_sign::crypto_sign_update(&mut st, &msg[..cut]);
        dryoc::classic::crypto_sign::crypto_sign_update(&mut st, &msg[cut..]);
        let mut ph = [0u8; 64];
        dryoc::classic::crypto_sign::crypto_sign_final_create(st, &mut ph, &ssk).expect("ph");
        v.push(Line { id: format!("sign-prehashed/{i}"), out: ph.to_vec(), reference: Some(sodium::sign_ph_create(&[&msg], &ssk).to_vec()), nontrivial: true });
        });
    }
    // --- Argon2 grid (small memory)
    let pn = tier.pick(120usize, 12_000);
    for i in 0..pn {
        guarded(&mut vv, format!("pwhash/{i}"), |v| {
        let mut f = Fill::new(seed, &format!("C18:pw:{i}"));
        let outlen = 16 + (i * 7) % 150;
        let m = 8 + i % 57;
        let t = 1 + (i % 3) as u64;
        let alg = 1 + (i % 2) as i32;
        let pw = f.bytes(i % 50);
        let salt = f.bytes(if i % 3 == 0 { 16 } else { 8 + i % 40 });
        let mut o = vec![0u8; outlen];
        let a = if alg == 1 { dryoc::classic::crypto_pwhash::PasswordHashAlgorithm::Argon2i13 } else { dryoc::classic::crypto_pwhash::PasswordHashAlgorithm::Argon2id13 };
        dryoc::classic::crypto_pwhash::crypto_pwhash(&mut o, &pw, &salt, t, m * 1024, a).expect("pwhash");
        v.push(Line { id: format!("pwhash/{i}/alg{alg}/out{outlen}/m{m}/t{t}"), out: o, reference: sodium::argon2_raw(alg, t as u32, m as u32, &pw, &salt, outlen), nontrivial: true });
        });
    }
    containers_stable(seed, tier, &mut vv);
    #[cfg(feature = "nightly")]
    containers(seed, tier, &mut vv);
    vv
}

/// container axis available in every build: stack array, plain array, Vec and `*_to_vec` wrappers
fn containers_stable(seed: u64, tier: Tier, vv: &mut Vec<Line>) {
    use dryoc::generichash::GenericHash;
    let n = tier.pick(300usize, 8000);
    for i in 0..n {
        guarded(vv, format!("container/stable-wrappers/{i}"), |v| {
        let mut f = Fill::new(seed, &format!("C18:cs:{i}"));
        let msg = f.bytes(i % 300);
        let key: [u8; 32] = f.arr();
        macro_rules! gh {
            ($ol:expr) => {{
                let a: StackByteArray<$ol> = GenericHash::<32, $ol>::hash(&msg, Some(&key)).expect("gh");
                let b: [u8; $ol] = GenericHash::<32, $ol>::hash(msg.as_slice(), Some(&StackByteArray::<32>::from(key))).expect("gh");
                let c: Vec<u8> = GenericHash::<32, $ol>::hash(&msg, Some(&key.to_vec())).expect("gh");
                let d: Vec<u8> = GenericHash::<32, $ol>::hash_to_vec(&msg, Some(&key)).expect("gh");
                let mut h = GenericHash::<32, $ol>::new(Some(&key)).expect("gh");
                h.update(&msg);
                let e: Vec<u8> = h.finalize_to_vec().expect("gh");
                let ok = a.as_slice() == &b[..] && c == b.to_vec() && d == c && e == c;
                v.push(Line { id: format!("container/generichash-wrappers/{}/{i}", $ol), out: if ok { c } else { b"CONTAINER-MISMATCH".to_vec() }, reference: sodium::generichash($ol, &msg, Some(&key)), nontrivial: true });
            }};
        }
        match i % 4 {
            0 => gh!(16),
            1 => gh!(32),
            2 => gh!(64),
            _ => gh!(33),
        }
        let m1: Vec<u8> = dryoc::auth::Auth::compute_to_vec(key, &msg);
        let m2: StackByteArray<32> = dryoc::auth::Auth::compute(key.to_vec(), &msg);
        let m3: [u8; 32] = dryoc::auth::Auth::compute(StackByteArray::<32>::from(key), &msg);
        let o1: Vec<u8> = dryoc::onetimeauth::OnetimeAuth::compute_to_vec(key, &msg);
        let o2: StackByteArray<16> = dryoc::onetimeauth::OnetimeAuth::compute(key.to_vec(), &msg);
        let s1: Vec<u8> = dryoc::sha512::Sha512::compute_to_vec(&msg);
        let s2: StackByteArray<64> = dryoc::sha512::Sha512::compute(&msg);
        let ok = m2.as_slice() == m1 && m3[..] == m1[..] && o2.as_slice() == o1 && s2.as_slice() == s1;
        v.push(Line { id: format!("container/auth+onetimeauth+sha512-wrappers/{i}"), out: if ok { [m1, o1, s1].concat() } else { b"CONTAINER-MISMATCH".to_vec() }, reference: None, nontrivial: true });
        // resizing with a non-zero fill value must give the same bytes in every resizable container
        let (n0, n1, fillv) = (i % 50, 60 + i % 9000, 1 + (i % 255) as u8);
        let mut rv: Vec<u8> = msg[..n0.min(msg.len())].to_vec();
        let base0 = rv.clone();
        // grow with a non-zero fill, shrink, grow again with a ZERO fill inside the capacity already reserved
        let (n2, n3) = (n1 / 3, n1 / 3 + (n1 - n1 / 3) / 2);
        ResizableBytes::resize(&mut rv, n1, fillv);
        ResizableBytes::resize(&mut rv, n2, 0);
        ResizableBytes::resize(&mut rv, n3, 0);
        let mut out = rv.clone();
        #[cfg(feature = "nightly")]
        {
            use dryoc::protected::*;
            let mut hb = HeapBytes::default();
            hb.resize(base0.len(), 0);
            hb.as_mut_slice().copy_from_slice(&base0);
            let mut lk = HeapBytes::from_slice_into_locked(&base0).expect("lock");
            let mut ul = HeapBytes::from_slice_into_locked(&base0).expect("lock").munlock().expect("unlock");
            for (n, fv) in [(n1, fillv), (n2, 0), (n3, 0)] {
                hb.resize(n, fv);
                lk.resize(n, fv);
                ul.resize(n, fv);
            }
            if hb.as_slice() != rv || lk.as_slice() != rv || ul.as_slice() != rv {
                out = b"CONTAINER-MISMATCH".to_vec();
            }
        }
        let _ = base0;
        v.push(Line { id: format!("container/resize-with-fill/{i}"), out: crate::models::sha512(&out).to_vec(), reference: None, nontrivial: true });
        if out == b"CONTAINER-MISMATCH" {
            v.last_mut().unwrap().out = out;
        }
        });
    }
}

/// container axis (nightly builds): the same operation through heap / locked containers must give
/// the bytes the stack/array form gives; recorded under ids shared with... nothing in the stable
/// transcript, so they are compared between the two nightly builds and checked in-process.
#[cfg(feature = "nightly")]
fn containers(seed: u64, tier: Tier, vv: &mut Vec<Line>) {
    use dryoc::generichash::GenericHash;
    use dryoc::protected::*;
    let n = tier.pick(200usize, 6000);
    for i in 0..n {
        guarded(vv, format!("container/heap-locked/{i}"), |v| {
        let mut f = Fill::new(seed, &format!("C18:cont:{i}"));
        let msg = f.bytes(i % 400);
        let key: [u8; 32] = f.arr();
        let base: Vec<u8> = GenericHash::<32, 32>::hash_to_vec(&msg, Some(&key)).expect("gh");
        let lk = HeapByteArray::<32>::from_slice_into_locked(&key).expect("lock");
        let lm = HeapBytes::from_slice_into_readonly_locked(&msg).expect("lock");
        let a: Locked<HeapByteArray<32>> = GenericHash::<32, 32>::hash(&lm, Some(&lk)).expect("gh");
        let b: HeapByteArray<32> = GenericHash::<32, 32>::hash(&msg, Some(&StackByteArray::<32>::from(key))).expect("gh");
        let c: [u8; 32] = GenericHash::<32, 32>::hash(msg.as_slice(), Some(&key.to_vec())).expect("gh");
        let ok = a.as_slice() == base && b.as_slice() == base && c[..] == base[..];
        v.push(Line { id: format!("container/generichash/{i}"), out: if ok { base.clone() } else { b"CONTAINER-MISMATCH".to_vec() }, reference: sodium::generichash(32, &msg, Some(&key)), nontrivial: true });
        let h1: Vec<u8> = dryoc::sha512::Sha512::compute_to_vec(&msg);
        let h2: Locked<HeapByteArray<64>> = dryoc::sha512::Sha512::compute(&lm);
        let kdf1: Vec<u8> = dryoc::kdf::Kdf::<StackByteArray<32>, StackByteArray<8>>::from_parts(key.into(), [3u8; 8].into()).derive_subkey_to_vec(i as u64).expect("kdf");
        let kdf2: Locked<HeapByteArray<32>> = dryoc::kdf::Kdf::from_parts(HeapByteArray::<32>::from_slice_into_readonly_locked(&key).expect("l"), HeapByteArray::<8>::from(&[3u8; 8])).derive_subkey(i as u64).expect("kdf");
        let ok = h2.as_slice() == h1 && kdf2.as_slice() == kdf1;
        v.push(Line { id: format!("container/sha512+kdf/{i}"), out: if ok { [h1, kdf1].concat() } else { b"CONTAINER-MISMATCH".to_vec() }, reference: None, nontrivial: true });
        });
    }
}

pub fn write_transcript(seed: u64, tier: Tier, path: &str) -> i32 {
    let lines = generate(seed, tier);
    let mut s = String::new();
    for l in &lines {
        let h = crate::models::sha512(&l.out);
        let status = match &l.reference {
            Some(r) if *r != l.out => "MISMATCH-REF",
            _ => "ok",
        };
        s.push_str(&format!("{}\t{}\t{}\t{}\t{}\n", l.id, hx(&h[..16]), status, l.nontrivial as u8, hx(&l.out[..l.out.len().min(24)])));
    }
    std::fs::write(path, s).map(|_| 0).unwrap_or(2)
}

pub fn run(ctx: &mut Ctx) -> Result<(), Violation> {
    ctx.rule = "The same VERIF_SEED-derived corpus is evaluated by three builds of the same harness source: stable (default software backend), nightly (feature nightly), simd (features nightly + simd_backend: portable-SIMD BLAKE2b, sha2 asm). Corpus: generic hash one-shot for every length 0..=L x fills with varying digest/key lengths, 3-way seeded chunkings, block-boundary chunkings and many-piece chunkings, SHA-512, HMAC, the key-derivation sweep (every length 16..=64 x ids), kx seed key pairs and session keys, X25519 on random points, box, sealed-box opening (nonce derivation), detached and pre-hashed signatures, an Argon2 parameter grid; nightly builds add the container axis (stack, array, Vec, heap, locked, read-only locked inputs/outputs must give identical bytes). Oracle: transcripts (case id -> SHA-512 of the output) identical line by line across the three builds; in every build each case also equals libsodium's output where one exists; container variants equal the stack form. Non-trivial: input spanning more than one BLAKE2b block, >= 2 update calls, or a non-array container; distinct = case ids (x builds that produced them).".into();
    ctx.assumptions = vec![
        "only the three configurations that build on this image are compared; third-party crates' RUSTFLAGS-selected SIMD backends are outside the statement".into(),
    ];
    let verif = std::env::var("VERIF_DIR").unwrap_or("/verif".into());
    let builds = ["stable", "nightly", "simd"];
    let tmp = format!("{verif}/target/tmp-c18-{}", std::process::id());
    std::fs::create_dir_all(&tmp).ok();
    let mut children = vec![];
    for b in builds {
        let exe = format!("{verif}/target/{b}/release/vcheck");
        if !std::path::Path::new(&exe).exists() {
            eprintln!("INCONCLUSIVE: build configuration {b} is missing ({exe})");
            std::process::exit(2);
        }
        let out = format!("{tmp}/{b}.tsv");
        let ch = std::process::Command::new(&exe).args(["transcript", &ctx.seed.to_string(), ctx.tier.name(), &out]).spawn().expect("spawn");
        children.push((b, ch, out));
    }
    let mut transcripts: BTreeMap<&str, BTreeMap<String, (String, String, bool, String)>> = BTreeMap::new();
    let mut order: Vec<String> = vec![];
    let mut seen: std::collections::BTreeSet<String> = Default::default();
    for (b, mut ch, out) in children {
        let st = ch.wait().expect("wait");
        let text = std::fs::read_to_string(&out).unwrap_or_default();
        if !st.success() || text.is_empty() {
            eprintln!("INCONCLUSIVE: transcript generation failed in build {b}: {st:?}");
            std::process::exit(2);
        }
        let mut m = BTreeMap::new();
        for line in text.lines() {
            let p: Vec<&str> = line.split('\t').collect();
            if p.len() == 5 {
                if !seen.contains(p[0]) {
                    seen.insert(p[0].to_string());
                    order.push(p[0].to_string());
                }
                m.insert(p[0].to_string(), (p[1].to_string(), p[2].to_string(), p[3] == "1", p[4].to_string()));
            }
        }
        transcripts.insert(b, m);
    }
    std::fs::remove_dir_all(&tmp).ok();
    let mut result: Result<(), Violation> = Ok(());
    for id in &order {
        let per: Vec<(&str, Option<&(String, String, bool, String)>)> = builds.iter().map(|b| (*b, transcripts[b].get(id))).collect();
        let present: Vec<&(&str, Option<&(String, String, bool, String)>)> = per.iter().filter(|(_, v)| v.is_some()).collect();
        // a case only some builds could compute: the operation failed (Err / panic) in the others; ids of the
        // nightly-only container cases are compared between the two nightly builds
        let expected_builds = if id.starts_with("container/heap-locked/") || id.starts_with("container/generichash/") || id.starts_with("container/sha512+kdf/") { 2 } else { 3 };
        if !id.contains("/FAILED: ") && present.len() < expected_builds && result.is_ok() {
            let missing: Vec<&str> = per.iter().filter(|(b, v)| v.is_none() && !(expected_builds == 2 && *b == "stable")).map(|(b, _)| *b).collect();
            let why: Vec<String> = missing.iter().flat_map(|b| transcripts[b].keys().filter(|k| k.contains("/FAILED: ")).take(1).cloned()).collect();
            result = Err(Violation::new(
                "C18",
                "transcript",
                format!("case {id}: build(s) {:?} produced a result but build(s) {missing:?} failed on the same valid input ({})", present.iter().map(|(b, _)| *b).collect::<Vec<_>>(), why.join("; ")),
                json!({"case_id": id, "builds": missing, "seed": ctx.seed, "tier": ctx.tier.name()}),
            ));
        }
        ctx.ev.eval(present.len() as u64);
        let first = present[0].1.unwrap();
        for (b, v) in &present {
            let v = v.unwrap();
            if v.3.starts_with(&hx(b"CONTAINER-MISMATCH")[..20]) && result.is_ok() {
                result = Err(Violation::new("C18", "transcript", format!("build {b}: case {id}: container variants produce different bytes"), json!({"case_id": id, "build": b, "seed": ctx.seed, "tier": ctx.tier.name()})));
            }
            if v.1 != "ok" && result.is_ok() {
                result = Err(Violation::new("C18", "transcript", if id.contains("/FAILED: ") { format!("build {b}: an operation returned Err or panicked on a valid input: {id}") } else { format!("build {b}: case {id} differs from libsodium's output (output prefix {})", v.3) }, json!({"case_id": id, "build": b, "seed": ctx.seed, "tier": ctx.tier.name()})));
            }
            if v.0 != first.0 && result.is_ok() {
                result = Err(Violation::new(
                    "C18",
                    "transcript",
                    format!("case {id}: build {} produced {}… but build {b} produced {}…", present[0].0, first.3, v.3),
                    json!({"case_id": id, "builds": [present[0].0, b], "seed": ctx.seed, "tier": ctx.tier.name()}),
                ));
            }
            if v.2 {
                ctx.ev.nontrivial(fnv64(&[id.as_bytes(), b.as_bytes()]));
            }
        }
        let cls = id.split('/').next().unwrap_or("?");
        ctx.ev.class_n(cls, present.len() as u64);
        if ctx.ev.samples.len() < 12 && (id.ends_with("/0") || id.ends_with("/7/0") || id.contains("/300/")) {
            ctx.ev.samples.push(json!({"case_id": id, "output_prefix": first.3, "builds_agreeing": present.iter().map(|(b, _)| *b).collect::<Vec<_>>()}));
        }
    }
    ctx.ev.extra.insert("builds".into(), json!(builds));
    ctx.ev.extra.insert("cases_per_build".into(), json!(transcripts.iter().map(|(b, m)| (b.to_string(), m.len())).collect::<BTreeMap<_, _>>()));
    result
}

pub fn replay(v: &Violation) -> Result<(), String> {
    // re-run the comparison and look at the recorded case only
    let id = v.case["case_id"].as_str().unwrap_or("").to_string();
    let tier = if v.case["tier"].as_str() == Some("thorough") { Tier::Thorough } else { Tier::Quick };
    let mut ctx = Ctx::new("C18", tier, v.case["seed"].as_u64().unwrap_or(1));
    match run(&mut ctx) {
        Ok(()) => Ok(()),
        Err(nv) => {
            if nv.case["case_id"].as_str() == Some(&id) || id.is_empty() {
                Err(nv.message)
            } else {
                Err(format!("a different case now fails: {}", nv.message))
            }
        }
    }
}
