//! C16 — byte and serde encodings round-trip and enforce fixed lengths.
use crate::core::*;
use crate::sodium;
use dryoc::dryocbox::DryocBox;
use dryoc::dryocsecretbox::DryocSecretBox;
use dryoc::kdf::Kdf;
use dryoc::keypair::KeyPair;
use dryoc::kx::Session;
use dryoc::pwhash::{Config, PwHash};
use dryoc::sign::{SignedMessage, SigningKeyPair};
use dryoc::types::*;
use serde::de::value::{BytesDeserializer, Error as ValueError, SeqDeserializer};
use serde::de::DeserializeOwned;
use serde::{Deserialize, Serialize};
use serde_json::json;

#[derive(Debug, Clone, Serialize, Deserialize)]
#[serde(tag = "kind")]
pub enum Case {
    /// round-trip all object types with a payload of this content
    RoundTrip { payload: Hex, fill: u64 },
    /// decode a fixed-length container of `n` bytes from an encoding holding `count` bytes
    WrongLength { n: usize, count: usize },
    /// on ONE thread: refused decodes (too many elements, a malformed element, too few) each followed by a
    /// valid decode, which must still succeed and give the right bytes; then an empty encoding, which must be refused
    AfterRefusal { fill: u64 },
}

type SB<const N: usize> = StackByteArray<N>;

fn np<R>(what: &str, f: impl FnOnce() -> R) -> Result<R, String> {
    no_panic(f).map_err(|p| format!("{what}: panicked: {p} at {}", last_panic_loc()))
}

/// serialise with each format, deserialise, and hand the decoded value to `eq`
fn formats<T: Serialize + DeserializeOwned>(what: &str, v: &T, eq: &dyn Fn(&T) -> Result<(), String>, n: &mut u64) -> Result<(), String> {
    // serde_json: string, bytes, Value
    let s = np(&format!("{what}: serde_json::to_string"), || serde_json::to_string(v))?.map_err(|e| format!("{what}: serde_json::to_string: {e}"))?;
    let d: T = np(&format!("{what}: serde_json::from_str"), || serde_json::from_str(&s))?.map_err(|e| format!("{what}: its own JSON does not deserialise: {e}; JSON = {}", &s[..s.len().min(200)]))?;
    eq(&d).map_err(|m| format!("{what} via serde_json: {m}"))?;
    let val = serde_json::to_value(v).map_err(|e| format!("{what}: to_value: {e}"))?;
    let d: T = np(&format!("{what}: serde_json::from_value"), || serde_json::from_value(val))?.map_err(|e| format!("{what}: from_value: {e}"))?;
    eq(&d).map_err(|m| format!("{what} via serde_json::Value: {m}"))?;
    let bytes = serde_json::to_vec(v).map_err(|e| format!("{what}: to_vec: {e}"))?;
    let d: T = np(&format!("{what}: serde_json::from_slice"), || serde_json::from_slice(&bytes))?.map_err(|e| format!("{what}: from_slice: {e}"))?;
    eq(&d).map_err(|m| format!("{what} via serde_json bytes: {m}"))?;
    // bincode
    let b = np(&format!("{what}: bincode::serialize"), || bincode::serialize(v))?.map_err(|e| format!("{what}: bincode::serialize: {e}"))?;
    let d: T = np(&format!("{what}: bincode::deserialize"), || bincode::deserialize(&b))?.map_err(|e| format!("{what}: its own bincode does not deserialise: {e}"))?;
    eq(&d).map_err(|m| format!("{what} via bincode: {m}"))?;
    let d: T = np(&format!("{what}: bincode::deserialize_from"), || bincode::deserialize_from(std::io::Cursor::new(&b)))?.map_err(|e| format!("{what}: bincode reader: {e}"))?;
    eq(&d).map_err(|m| format!("{what} via bincode reader: {m}"))?;
    *n += 5;
    Ok(())
}

fn same(a: &[u8], b: &[u8], what: &str) -> Result<(), String> {
    if a == b {
        Ok(())
    } else {
        Err(format!("{what} differs after decoding: {} vs {}", hx(&a[..a.len().min(40)]), hx(&b[..b.len().min(40)])))
    }
}

pub fn roundtrip(payload: &[u8], fill: u64) -> Result<u64, String> {
    let mut f = Fill::new(fill, "C16");
    let mut n = 0u64;
    let nonce: [u8; 24] = f.arr();
    let key: [u8; 32] = f.arr();
    let (spk, ssk) = sodium::box_seed_keypair(&f.arr());
    let (rpk, rsk) = sodium::box_seed_keypair(&f.arr());
    let de = |e: dryoc::Error| format!("{e:?}");

    // ---- bare fixed-length arrays
    macro_rules! bare {
        ($($n:expr),*) => {$({
            let a = SB::<$n>::from(f.arr::<$n>());
            formats(&format!("StackByteArray<{}>", $n), &a, &|d| same(d.as_slice(), a.as_slice(), "bytes"), &mut n)?;
            let via_bytes: SB<$n> = Deserialize::deserialize(BytesDeserializer::<ValueError>::new(a.as_slice())).map_err(|e| format!("StackByteArray<{}> from bytes: {e}", $n))?;
            let via_seq: SB<$n> = Deserialize::deserialize(SeqDeserializer::<_, ValueError>::new(a.as_slice().iter().copied())).map_err(|e| format!("StackByteArray<{}> from an element sequence: {e}", $n))?;
            same(via_bytes.as_slice(), a.as_slice(), "bytes-visitor result")?;
            same(via_seq.as_slice(), a.as_slice(), "seq-visitor result")?;
            n += 2;
        })*};
    }
    bare!(8, 12, 16, 24, 32, 64);

    // ---- constant-content values (zero / 0xff keys, default-constructed objects): content must not matter
    for fillb in [0u8, 0xff] {
        let z32 = SB::<32>::from([fillb; 32]);
        formats(&format!("StackByteArray<32> all {fillb:#04x}"), &z32, &|d| same(d.as_slice(), &[fillb; 32], "bytes"), &mut n)?;
        let z8 = SB::<8>::from([fillb; 8]);
        formats(&format!("StackByteArray<8> all {fillb:#04x}"), &z8, &|d| same(d.as_slice(), &[fillb; 8], "bytes"), &mut n)?;
        let kdfz: Kdf<SB<32>, SB<8>> = Kdf::from_parts(SB::from(key), z8.clone());
        let subz: Vec<u8> = kdfz.derive_subkey_to_vec(1).map_err(de)?;
        formats(&format!("Kdf with an all-{fillb:#04x} context"), &kdfz, &|d| {
            let s: Vec<u8> = d.derive_subkey_to_vec(1).map_err(|e| format!("{e:?}"))?;
            same(&s, &subz, "subkey")
        }, &mut n)?;
    }
    {
        let kp0: KeyPair<SB<32>, SB<32>> = KeyPair::new();
        formats("KeyPair::new() (all-zero keys)", &kp0, &|d| if *d == kp0 { Ok(()) } else { Err("decoded != original".into()) }, &mut n)?;
        let sk0: SigningKeyPair<SB<32>, SB<64>> = SigningKeyPair::new();
        formats("SigningKeyPair::new() (all-zero keys)", &sk0, &|d| same(d.secret_key.as_slice(), sk0.secret_key.as_slice(), "secret key"), &mut n)?;
        let zb: DryocSecretBox<SB<16>, Vec<u8>> = DryocSecretBox::from_parts(SB::from([0u8; 16]), vec![0u8; payload.len() % 7]);
        formats("DryocSecretBox with an all-zero tag", &zb, &|d| if *d == zb { Ok(()) } else { Err("decoded != original".into()) }, &mut n)?;
    }

    // ---- secret box
    let sb: DryocSecretBox<SB<16>, Vec<u8>> = DryocSecretBox::encrypt(payload, &nonce, &key);
    let want_wire = sodium::secretbox_easy(payload, &nonce, &key);
    same(&sb.to_vec(), &want_wire, "DryocSecretBox::to_vec vs libsodium combined layout")?;
    let chk_sb = |d: &DryocSecretBox<SB<16>, Vec<u8>>| -> Result<(), String> {
        if *d != sb {
            return Err("decoded secret box != original".into());
        }
        let pt = d.decrypt_to_vec(&nonce, &key).map_err(|e| format!("decoded secret box no longer decrypts: {e:?}"))?;
        same(&pt, payload, "plaintext")
    };
    formats("DryocSecretBox<Stack,Vec>", &sb, &chk_sb, &mut n)?;
    let fb = DryocSecretBox::<SB<16>, Vec<u8>>::from_bytes(&sb.to_vec()).map_err(de)?;
    chk_sb(&fb).map_err(|m| format!("to_bytes/from_bytes: {m}"))?;
    let (t, d) = sb.clone().into_parts();
    chk_sb(&DryocSecretBox::from_parts(t, d)).map_err(|m| format!("into_parts/from_parts: {m}"))?;
    // into_vec / to_vec on objects whose data buffer has SPARE CAPACITY (decoded by serde, or assembled from a reused buffer)
    {
        let js = serde_json::to_string(&sb).map_err(|e| e.to_string())?;
        let dec: DryocSecretBox<SB<16>, Vec<u8>> = serde_json::from_str(&js).map_err(|e| format!("secret box JSON: {e}"))?;
        same(&dec.to_vec(), &want_wire, "to_vec of a JSON-decoded secret box vs libsodium layout")?;
        same(&dec.into_vec(), &want_wire, "into_vec of a JSON-decoded secret box vs libsodium layout")?;
        let dec: DryocSecretBox<SB<16>, Vec<u8>> = bincode::deserialize(&bincode::serialize(&sb).map_err(|e| e.to_string())?).map_err(|e| format!("secret box bincode: {e}"))?;
        same(&dec.into_vec(), &want_wire, "into_vec of a bincode-decoded secret box vs libsodium layout")?;
        for spare in [1usize, 15, 16, 17, 64] {
            let (t, d) = sb.clone().into_parts();
            let mut roomy = Vec::with_capacity(d.len() + spare);
            roomy.extend_from_slice(&d);
            let b = DryocSecretBox::<SB<16>, Vec<u8>>::from_parts(t, roomy);
            same(&b.to_vec(), &want_wire, "to_vec of a secret box whose data Vec has spare capacity")?;
            same(&b.into_vec(), &want_wire, "into_vec of a secret box whose data Vec has spare capacity")?;
        }
        n += 8;
    }
    let sbv: DryocSecretBox<Vec<u8>, Vec<u8>> = DryocSecretBox::encrypt(payload, &nonce, &key);
    formats("DryocSecretBox<Vec,Vec>", &sbv, &|d| if *d == sbv { Ok(()) } else { Err("decoded != original".into()) }, &mut n)?;

    // ---- box, sealed box
    let bx: DryocBox<SB<32>, SB<16>, Vec<u8>> = DryocBox::encrypt(payload, &nonce, &rpk, &ssk).map_err(de)?;
    same(&bx.to_vec(), &sodium::box_easy(payload, &nonce, &rpk, &ssk).ok_or("harness")?, "DryocBox::to_vec vs libsodium combined layout")?;
    let chk_bx = |d: &DryocBox<SB<32>, SB<16>, Vec<u8>>| -> Result<(), String> {
        if *d != bx {
            return Err("decoded box != original".into());
        }
        let pt: Vec<u8> = d.decrypt(&nonce, &spk, &rsk).map_err(|e| format!("decoded box no longer decrypts: {e:?}"))?;
        same(&pt, payload, "plaintext")
    };
    formats("DryocBox<Stack,Stack,Vec>", &bx, &chk_bx, &mut n)?;
    chk_bx(&DryocBox::from_bytes(&bx.to_vec()).map_err(de)?).map_err(|m| format!("to_bytes/from_bytes: {m}"))?;
    let (t, d, e) = bx.clone().into_parts();
    chk_bx(&DryocBox::from_parts(t, d, e)).map_err(|m| format!("into_parts/from_parts: {m}"))?;
    let kp_r: KeyPair<SB<32>, SB<32>> = KeyPair::from_slices(&rpk, &rsk).map_err(de)?;
    let sl: DryocBox<SB<32>, SB<16>, Vec<u8>> = DryocBox::seal(payload, &rpk).map_err(de)?;
    let chk_sl = |d: &DryocBox<SB<32>, SB<16>, Vec<u8>>| -> Result<(), String> {
        if *d != sl {
            return Err("decoded sealed box != original".into());
        }
        let pt = d.unseal_to_vec(&kp_r).map_err(|e| format!("decoded sealed box no longer unseals: {e:?}"))?;
        same(&pt, payload, "plaintext")
    };
    formats("DryocBox sealed", &sl, &chk_sl, &mut n)?;
    chk_sl(&DryocBox::from_sealed_bytes(&sl.to_vec()).map_err(de)?).map_err(|m| format!("sealed to_bytes/from_sealed_bytes: {m}"))?;
    if sodium::box_seal_open(&sl.to_vec(), &rpk, &rsk).as_deref() != Some(payload) {
        return Err("sealed to_vec is not libsodium's sealed-box layout".into());
    }
    // sealed box taken apart and reassembled (the ephemeral public key is one of the parts)
    {
        let (t, d, e) = sl.clone().into_parts();
        chk_sl(&DryocBox::from_parts(t, d, e)).map_err(|m| format!("sealed into_parts/from_parts: {m}"))?;
        let from_ref: DryocBox<SB<32>, SB<16>, Vec<u8>> = DryocBox::from_sealed_bytes(&sodium::box_seal(payload, &rpk)).map_err(de)?;
        let (t, d, e) = from_ref.clone().into_parts();
        let back: DryocBox<SB<32>, SB<16>, Vec<u8>> = DryocBox::from_parts(t, d, e);
        if sodium::box_seal_open(&back.to_vec(), &rpk, &rsk).as_deref() != Some(payload) {
            return Err("a libsodium sealed box parsed, taken apart with into_parts and reassembled with from_parts no longer opens under libsodium".into());
        }
    }
    let bxv: DryocBox<Vec<u8>, Vec<u8>, Vec<u8>> = DryocBox::seal(payload, &rpk.to_vec()).map_err(de)?;
    formats("DryocBox<Vec,Vec,Vec> sealed", &bxv, &|d| if *d == bxv { Ok(()) } else { Err("decoded != original".into()) }, &mut n)?;

    // ---- signed message, signing key pair
    let skp: SigningKeyPair<SB<32>, SB<64>> = SigningKeyPair::from_seed(&f.arr::<32>());
    let sm: SignedMessage<SB<64>, Vec<u8>> = skp.sign(payload.to_vec()).map_err(de)?;
    same(&sm.to_vec(), &sodium::sign_combined(payload, skp.secret_key.as_array()), "SignedMessage::to_vec vs libsodium combined layout")?;
    let chk_sm = |d: &SignedMessage<SB<64>, Vec<u8>>| -> Result<(), String> {
        same(&d.to_vec(), &sm.to_vec(), "signed message")?;
        d.verify(&skp.public_key).map_err(|e| format!("decoded signed message no longer verifies: {e:?}"))
    };
    formats("SignedMessage<Stack,Vec>", &sm, &chk_sm, &mut n)?;
    chk_sm(&SignedMessage::from_bytes(&sm.to_vec()).map_err(de)?).map_err(|m| format!("to_bytes/from_bytes: {m}"))?;
    let (s_, m_) = sm.clone().into_parts();
    chk_sm(&SignedMessage::from_parts(s_, m_)).map_err(|m| format!("into_parts/from_parts: {m}"))?;
    formats("SigningKeyPair<Stack,Stack>", &skp, &|d| {
        same(d.public_key.as_slice(), skp.public_key.as_slice(), "public key")?;
        same(d.secret_key.as_slice(), skp.secret_key.as_slice(), "secret key")
    }, &mut n)?;

    // ---- key pair, session, kdf, pwhash
    formats("KeyPair<Stack,Stack>", &kp_r, &|d| if *d == kp_r { Ok(()) } else { Err("decoded key pair != original".into()) }, &mut n)?;
    let kpv: KeyPair<Vec<u8>, Vec<u8>> = KeyPair::from_slices(&rpk, &rsk).map_err(de)?;
    formats("KeyPair<Vec,Vec>", &kpv, &|d| if *d == kpv { Ok(()) } else { Err("decoded key pair != original".into()) }, &mut n)?;
    let kp_s: KeyPair<SB<32>, SB<32>> = KeyPair::from_slices(&spk, &ssk).map_err(de)?;
    let sess: Session<SB<32>> = Session::new_client(&kp_s, &SB::<32>::from(rpk)).map_err(de)?;
    formats("kx::Session<Stack>", &sess, &|d| {
        same(d.rx_as_slice(), sess.rx_as_slice(), "rx key")?;
        same(d.tx_as_slice(), sess.tx_as_slice(), "tx key")
    }, &mut n)?;
    let (rx, tx) = sess.clone().into_parts();
    same(rx.as_slice(), sess.rx_as_slice(), "Session::into_parts rx")?;
    same(tx.as_slice(), sess.tx_as_slice(), "Session::into_parts tx")?;
    let kdf: Kdf<SB<32>, SB<8>> = Kdf::from_parts(SB::from(key), SB::from(f.arr::<8>()));
    let sub0: Vec<u8> = kdf.derive_subkey_to_vec(7).map_err(de)?;
    formats("Kdf<Stack,Stack>", &kdf, &|d| {
        let s: Vec<u8> = d.derive_subkey_to_vec(7).map_err(|e| format!("{e:?}"))?;
        same(&s, &sub0, "subkey derived by the decoded Kdf")
    }, &mut n)?;
    let (k_, c_) = kdf.clone().into_parts();
    let s2: Vec<u8> = Kdf::from_parts(k_, c_).derive_subkey_to_vec(7).map_err(de)?;
    same(&s2, &sub0, "Kdf into_parts/from_parts")?;
    let pw = &payload[..payload.len().min(40)];
    let cfg = Config::interactive().with_opslimit(1).with_memlimit(8192 + 1024 * (payload.len() % 7)).with_salt_length(8 + payload.len() % 20).with_hash_length(16 + payload.len() % 50);
    let ph: PwHash<Vec<u8>, Vec<u8>> = PwHash::hash(&pw.to_vec(), cfg).map_err(de)?;
    let ph_json = serde_json::to_value(&ph).map_err(|e| e.to_string())?;
    formats("PwHash<Vec,Vec>", &ph, &|d| {
        if serde_json::to_value(d).map_err(|e| e.to_string())? != ph_json {
            return Err("decoded PwHash != original".into());
        }
        d.verify(&pw.to_vec()).map_err(|e| format!("decoded PwHash no longer verifies: {e:?}"))
    }, &mut n)?;
    let (h_, s_, c_) = ph.clone().into_parts();
    PwHash::from_parts(h_, s_, c_).verify(&pw.to_vec()).map_err(|e| format!("PwHash into_parts/from_parts no longer verifies: {e:?}"))?;
    // password-hash objects of other provenance: (a) made with a caller-supplied salt whose length differs from the
    // config's salt_length, (b) parsed from an Argon2i string, (c) parsed from an Argon2id string with non-default lengths
    {
        let salt = f.bytes(17 + payload.len() % 30);
        let cfg2 = Config::interactive().with_opslimit(1).with_memlimit(8192);
        let mut others: Vec<(&str, PwHash<Vec<u8>, Vec<u8>>)> = vec![];
        if let Ok(p) = PwHash::<Vec<u8>, Vec<u8>>::hash_with_salt(&pw.to_vec(), salt, cfg2) {
            others.push(("hash_with_salt(salt length != config.salt_length)", p));
        }
        let si = sodium::argon2_encoded(sodium::ALG_ARGON2I13, 3, 8 + (payload.len() % 5) as u32, pw, &f.bytes(8 + payload.len() % 9), 16 + payload.len() % 40).ok_or("harness: argon2_encoded")?;
        others.push(("from_string(argon2i)", PwHash::from_string(&si).map_err(|e| format!("from_string({si}): {e:?}"))?));
        let sd = sodium::argon2_encoded(sodium::ALG_ARGON2ID13, 1, 9, pw, &f.bytes(24), 48).ok_or("harness: argon2_encoded")?;
        others.push(("from_string(argon2id, 24-byte salt, 48-byte hash)", PwHash::from_string(&sd).map_err(|e| format!("from_string({sd}): {e:?}"))?));
        for (what, p) in &others {
            p.verify(&pw.to_vec()).map_err(|e| format!("harness: PwHash {what} does not verify before encoding: {e:?}"))?;
            let want = serde_json::to_value(p).map_err(|e| e.to_string())?;
            let want_str = p.to_string();
            formats(&format!("PwHash {what}"), p, &|d| {
                if serde_json::to_value(d).map_err(|e| e.to_string())? != want {
                    return Err("decoded PwHash != original".into());
                }
                if d.to_string() != want_str {
                    return Err(format!("decoded PwHash prints {} instead of {want_str}", d.to_string()));
                }
                d.verify(&pw.to_vec()).map_err(|e| format!("decoded PwHash no longer verifies: {e:?}"))
            }, &mut n)?;
        }
    }
    n += 12;
    #[cfg(feature = "nightly")]
    {
        n += nightly_roundtrip(payload, &mut f)?;
    }
    Ok(n)
}

#[cfg(feature = "nightly")]
fn nightly_roundtrip(payload: &[u8], f: &mut Fill) -> Result<u64, String> {
    use dryoc::protected::*;
    let mut n = 0u64;
    let de = |e: dryoc::Error| format!("{e:?}");
    let nonce: [u8; 24] = f.arr();
    let key: [u8; 32] = f.arr();
    // bare containers
    let hb = {
        let mut h = HeapBytes::default();
        h.resize(payload.len(), 0);
        h.as_mut_slice().copy_from_slice(payload);
        h
    };
    formats("HeapBytes", &hb, &|d| same(d.as_slice(), payload, "bytes"), &mut n)?;
    let hb2: HeapBytes = np("HeapBytes from bytes visitor", || Deserialize::deserialize(BytesDeserializer::<ValueError>::new(payload)))?.map_err(|e| format!("HeapBytes from bytes: {e}"))?;
    same(hb2.as_slice(), payload, "HeapBytes bytes-visitor result")?;
    let hb3: HeapBytes = np("HeapBytes from seq visitor", || Deserialize::deserialize(SeqDeserializer::<_, ValueError>::new(payload.iter().copied())))?.map_err(|e| format!("HeapBytes from seq: {e}"))?;
    same(hb3.as_slice(), payload, "HeapBytes seq-visitor result")?;
    let hb4 = np("HeapBytes::from(&[u8])", || HeapBytes::from(payload))?;
    same(hb4.as_slice(), payload, "HeapBytes::from(&[u8])")?;
    let lb = HeapBytes::from_slice_into_locked(payload).map_err(de)?;
    formats("LockedBytes", &lb, &|d| same(d.as_slice(), payload, "bytes"), &mut n)?;
    let lb3: LockedBytes = np("LockedBytes from seq visitor", || Deserialize::deserialize(SeqDeserializer::<_, ValueError>::new(payload.iter().copied())))?.map_err(|e| format!("LockedBytes from seq: {e}"))?;
    same(lb3.as_slice(), payload, "LockedBytes seq-visitor result")?;
    let la = HeapByteArray::<32>::from_slice_into_locked(&key).map_err(de)?;
    formats("Locked<HeapByteArray<32>>", &la, &|d| same(d.as_slice(), &key, "bytes"), &mut n)?;
    let la24 = HeapByteArray::<24>::from_slice_into_locked(&nonce).map_err(de)?;
    formats("Locked<HeapByteArray<24>>", &la24, &|d| same(d.as_slice(), &nonce, "bytes"), &mut n)?;
    // serialise-only containers produce the same encoding as Vec<u8>-with-bytes
    let ro = HeapBytes::from_slice_into_readonly_locked(payload).map_err(de)?;
    if serde_json::to_string(&ro).map_err(|e| e.to_string())? != serde_json::to_string(&hb).map_err(|e| e.to_string())? {
        return Err("LockedRO<HeapBytes> JSON differs from HeapBytes JSON".into());
    }
    let ha = HeapByteArray::<32>::from(&key);
    if bincode::serialize(&ha).map_err(|e| e.to_string())? != bincode::serialize(&la).map_err(|e| e.to_string())? {
        return Err("HeapByteArray bincode differs from Locked<HeapByteArray> bincode".into());
    }
    // objects over heap / locked containers
    let sb: DryocSecretBox<Locked<HeapByteArray<16>>, LockedBytes> = DryocSecretBox::encrypt(payload, &nonce, &key);
    let wire = sodium::secretbox_easy(payload, &nonce, &key);
    same(&sb.to_vec(), &wire, "locked secret box to_vec vs libsodium")?;
    formats("DryocSecretBox<Locked,LockedBytes>", &sb, &|d| {
        if *d != sb {
            return Err("decoded != original".into());
        }
        let pt: LockedBytes = d.decrypt(&nonce, &key).map_err(|e| format!("no longer decrypts: {e:?}"))?;
        same(pt.as_slice(), payload, "plaintext")
    }, &mut n)?;
    let fb = np("DryocSecretBox<HeapByteArray,HeapBytes>::from_bytes", || DryocSecretBox::<HeapByteArray<16>, HeapBytes>::from_bytes(&wire))?.map_err(de)?;
    let pt: HeapBytes = fb.decrypt(&nonce, &key).map_err(|e| format!("heap secret box from_bytes no longer decrypts: {e:?}"))?;
    same(pt.as_slice(), payload, "plaintext")?;
    let (rpk, rsk) = sodium::box_seed_keypair(&f.arr());
    let (spk, ssk) = sodium::box_seed_keypair(&f.arr());
    let bx: DryocBox<Locked<HeapByteArray<32>>, Locked<HeapByteArray<16>>, LockedBytes> = DryocBox::encrypt(payload, &nonce, &rpk, &ssk).map_err(de)?;
    formats("DryocBox<Locked..> (LockedBox)", &bx, &|d| {
        if *d != bx {
            return Err("decoded != original".into());
        }
        let pt: LockedBytes = d.decrypt(&nonce, &spk, &rsk).map_err(|e| format!("no longer decrypts: {e:?}"))?;
        same(pt.as_slice(), payload, "plaintext")
    }, &mut n)?;
    let sl: DryocBox<Locked<HeapByteArray<32>>, Locked<HeapByteArray<16>>, LockedBytes> = DryocBox::seal(payload, &rpk).map_err(de)?;
    formats("DryocBox<Locked..> sealed", &sl, &|d| if *d == sl { Ok(()) } else { Err("decoded != original".into()) }, &mut n)?;
    let kp: KeyPair<Locked<HeapByteArray<32>>, Locked<HeapByteArray<32>>> = KeyPair { public_key: HeapByteArray::<32>::from_slice_into_locked(&rpk).map_err(de)?, secret_key: HeapByteArray::<32>::from_slice_into_locked(&rsk).map_err(de)? };
    formats("KeyPair<Locked,Locked>", &kp, &|d| if *d == kp { Ok(()) } else { Err("decoded != original".into()) }, &mut n)?;
    let sm: SignedMessage<Locked<HeapByteArray<64>>, LockedBytes> = {
        let skp: SigningKeyPair<SB<32>, SB<64>> = SigningKeyPair::from_seed(&f.arr::<32>());
        skp.sign(HeapBytes::from_slice_into_locked(payload).map_err(de)?).map_err(de)?
    };
    formats("SignedMessage<Locked,LockedBytes>", &sm, &|d| same(&d.to_vec(), &sm.to_vec(), "signed message"), &mut n)?;
    Ok(n + 8)
}

/// wrong-length table: every encoding of `count` bytes must be refused by an `n`-byte container
pub fn wrong_length(nn: usize, count: usize) -> Result<u64, String> {
    let bytes: Vec<u8> = (0..count).map(|i| (i as u8).wrapping_mul(3).wrapping_add(1)).collect();
    let mut evals = 0u64;
    macro_rules! fixed {
        ($t:ty, $name:expr) => {{
            let json_seq = serde_json::to_string(&bytes).unwrap();
            let bin = bincode::serialize(&serde_bytes_like(&bytes)).unwrap();
            let outcomes: Vec<(&str, Result<Result<$t, String>, String>)> = vec![
                ("JSON element sequence", np($name, || serde_json::from_str::<$t>(&json_seq).map_err(|e| e.to_string()))),
                ("bincode byte string", np($name, || bincode::deserialize::<$t>(&bin).map_err(|e| e.to_string()))),
                ("bytes visitor", np($name, || <$t as Deserialize>::deserialize(BytesDeserializer::<ValueError>::new(&bytes)).map_err(|e| e.to_string()))),
                ("seq visitor", np($name, || <$t as Deserialize>::deserialize(SeqDeserializer::<_, ValueError>::new(bytes.iter().copied())).map_err(|e| e.to_string()))),
            ];
            for (enc, o) in outcomes {
                evals += 1;
                match o {
                    Err(p) => return Err(format!("{} decoding {count} bytes as {enc}: {p}", $name)),
                    Ok(Ok(v)) => {
                        if count != nn {
                            return Err(format!("{} accepted a {enc} holding {count} bytes (result {}): padding/truncation instead of an error", $name, hx(v.as_slice())));
                        }
                        if v.as_slice() != &bytes[..] {
                            return Err(format!("{} decoded the right length but different bytes", $name));
                        }
                    }
                    Ok(Err(_)) => {
                        if count == nn {
                            return Err(format!("{} refused a {enc} holding exactly {nn} bytes", $name));
                        }
                    }
                }
            }
        }};
    }
    macro_rules! for_n {
        ($n:expr) => {{
            fixed!(SB<$n>, concat!("StackByteArray<", stringify!($n), ">"));
            evals += 1;
            if SB::<$n>::try_from(&bytes[..]).is_ok() != (count == nn) {
                return Err(format!("StackByteArray<{}>::try_from(&[u8; {count}]) has the wrong verdict", $n));
            }
            #[cfg(feature = "nightly")]
            {
                use dryoc::protected::*;
                fixed!(Locked<HeapByteArray<$n>>, concat!("Locked<HeapByteArray<", stringify!($n), ">>"));
                evals += 2;
                if HeapByteArray::<$n>::try_from(&bytes[..]).is_ok() != (count == nn) {
                    return Err(format!("HeapByteArray<{}>::try_from has the wrong verdict for {count} bytes", $n));
                }
                if HeapByteArray::<$n>::from_slice_into_locked(&bytes).is_ok() != (count == nn) {
                    return Err(format!("HeapByteArray<{}>::from_slice_into_locked has the wrong verdict for {count} bytes", $n));
                }
            }
        }};
    }
    match nn {
        8 => for_n!(8),
        12 => for_n!(12),
        16 => for_n!(16),
        24 => for_n!(24),
        32 => for_n!(32),
        64 => for_n!(64),
        _ => return Err("harness: unsupported n".into()),
    }
    // nested in documents: a key pair with a wrong-length public key, a box with a wrong-length tag
    if nn == 32 {
        let good: Vec<u8> = vec![9u8; 32];
        let doc = json!({"public_key": bytes, "secret_key": good});
        let r = np("KeyPair JSON", || serde_json::from_value::<KeyPair<SB<32>, SB<32>>>(doc).is_ok())?;
        evals += 1;
        if r != (count == 32) {
            return Err(format!("KeyPair<Stack,Stack> JSON with a {count}-byte public key: accepted = {r}"));
        }
        let b = bincode::serialize(&(serde_bytes_like(&bytes), serde_bytes_like(&good))).unwrap();
        let r = np("KeyPair bincode", || bincode::deserialize::<KeyPair<SB<32>, SB<32>>>(&b).is_ok())?;
        evals += 1;
        if r != (count == 32) {
            return Err(format!("KeyPair<Stack,Stack> bincode with a {count}-byte public key: accepted = {r}"));
        }
    }
    if nn == 16 {
        let doc = json!({"ephemeral_pk": null, "tag": bytes, "data": [1, 2, 3]});
        let r = np("DryocBox JSON", || serde_json::from_value::<DryocBox<SB<32>, SB<16>, Vec<u8>>>(doc).is_ok())?;
        evals += 1;
        if r != (count == 16) {
            return Err(format!("DryocBox JSON with a {count}-byte tag: accepted = {r}"));
        }
        let doc = json!({"tag": bytes, "data": []});
        let r = np("DryocSecretBox JSON", || serde_json::from_value::<DryocSecretBox<SB<16>, Vec<u8>>>(doc).is_ok())?;
        evals += 1;
        if r != (count == 16) {
            return Err(format!("DryocSecretBox JSON with a {count}-byte tag: accepted = {r}"));
        }
    }
    if nn == 64 {
        let doc = json!({"signature": bytes, "message": [1]});
        let r = np("SignedMessage JSON", || serde_json::from_value::<SignedMessage<SB<64>, Vec<u8>>>(doc).is_ok())?;
        evals += 1;
        if r != (count == 64) {
            return Err(format!("SignedMessage JSON with a {count}-byte signature: accepted = {r}"));
        }
    }
    Ok(evals)
}

/// decode state must not leak from a refused decode into the next one (same thread, same type)
pub fn after_refusal(fill: u64) -> Result<u64, String> {
    let mut f = Fill::new(fill, "C16:after-refusal");
    let mut evals = 0u64;
    macro_rules! seqs {
        ($t:ty, $n:expr, $name:expr, $fixed:expr) => {{
            let good: Vec<u8> = f.bytes($n);
            let long: Vec<u8> = f.bytes($n + 1 + (fill % 5) as usize);
            let good_json = serde_json::to_string(&good).unwrap();
            let long_json = serde_json::to_string(&long).unwrap();
            let mut bad_elems: Vec<serde_json::Value> = good.iter().map(|b| json!(b)).collect();
            let pos = (fill as usize) % bad_elems.len().max(1);
            if !bad_elems.is_empty() {
                bad_elems[pos] = json!(300); // not a u8
            }
            let bad_json = serde_json::to_string(&bad_elems).unwrap();
            let short_json = serde_json::to_string(&good[..$n / 2]).unwrap();
            let expect_good = |label: &str| -> Result<(), String> {
                match np($name, || serde_json::from_str::<$t>(&good_json).map_err(|e| e.to_string()))? {
                    Ok(v) => {
                        if v.as_slice() != &good[..] {
                            return Err(format!("{}: a valid {}-element encoding decoded {label} gives {} instead of {}", $name, $n, hx(v.as_slice()), hx(&good)));
                        }
                    }
                    Err(e) => return Err(format!("{}: a valid {}-element encoding is refused when decoded {label}: {e}", $name, $n)),
                }
                let via_value: Result<$t, _> = serde_json::from_value(json!(good));
                match via_value {
                    Ok(v) if v.as_slice() == &good[..] => Ok(()),
                    Ok(v) => Err(format!("{}: a valid encoding (serde_json::Value) decoded {label} gives {}", $name, hx(v.as_slice()))),
                    Err(e) => Err(format!("{}: a valid encoding (serde_json::Value) is refused when decoded {label}: {e}", $name)),
                }
            };
            expect_good("first")?;
            for (label, doc, must_fail) in [("after a refused over-long sequence", &long_json, $fixed), ("after a refused sequence with a malformed element", &bad_json, !good.is_empty()), ("after a refused short sequence", &short_json, $fixed && $n / 2 != $n)] {
                let r = np($name, || serde_json::from_str::<$t>(doc).is_ok())?;
                evals += 1;
                if must_fail && r {
                    return Err(format!("{}: accepted an encoding that must be refused ({label})", $name));
                }
                expect_good(label)?;
                evals += 2;
            }
            if $fixed {
                let r = np($name, || serde_json::from_str::<$t>("[]").map(|v| v.as_slice().to_vec()))?;
                evals += 1;
                if let Ok(v) = r {
                    return Err(format!("{}: an EMPTY sequence decoded (after earlier refusals) into {}", $name, hx(&v)));
                }
            }
        }};
    }
    seqs!(SB<32>, 32, "StackByteArray<32>", true);
    seqs!(SB<16>, 16, "StackByteArray<16>", true);
    seqs!(Vec<u8>, 24, "Vec<u8>", false);
    #[cfg(feature = "nightly")]
    {
        use dryoc::protected::*;
        seqs!(Locked<HeapByteArray<32>>, 32, "Locked<HeapByteArray<32>>", true);
        seqs!(Locked<HeapByteArray<64>>, 64, "Locked<HeapByteArray<64>>", true);
        seqs!(LockedBytes, 40, "LockedBytes", false);
        seqs!(HeapBytes, 40, "HeapBytes", false);
    }
    Ok(evals)
}

/// bincode encodes `serialize_bytes` as u64 length + raw bytes; this wrapper produces exactly that
struct BytesLike<'a>(&'a [u8]);
impl Serialize for BytesLike<'_> {
    fn serialize<S: serde::Serializer>(&self, s: S) -> Result<S::Ok, S::Error> {
        s.serialize_bytes(self.0)
    }
}
fn serde_bytes_like(b: &[u8]) -> BytesLike<'_> {
    BytesLike(b)
}

pub fn check(c: &Case) -> Result<u64, String> {
    match c {
        Case::RoundTrip { payload, fill } => roundtrip(payload, *fill),
        Case::WrongLength { n, count } => wrong_length(*n, *count),
        Case::AfterRefusal { fill } => after_refusal(*fill),
    }
}

pub fn run(ctx: &mut Ctx) -> Result<(), Violation> {
    let nightly_part = cfg!(feature = "nightly") && std::env::var("VERIF_PART").as_deref() == Ok("nightly");
    ctx.rule = "Round-trips: payload of EVERY length 0..=L x fills through DryocBox (plain, sealed), DryocSecretBox, SignedMessage, KeyPair, SigningKeyPair, kx::Session, Kdf, PwHash+Config and bare StackByteArray<8|12|16|24|32|64> over stack and Vec containers (HeapBytes, LockedBytes, Locked<HeapByteArray<N>>, LockedRO in the nightly sub-run) via to_bytes/from_bytes/from_sealed_bytes, into_parts/from_parts, serde_json (string, bytes, Value), bincode (slice, reader) and serde's own BytesDeserializer / SeqDeserializer (both visitor paths). Oracle: decoded object equals the original AND still decrypts / unseals / verifies / derives the same subkey; to_bytes equals libsodium's combined layout. Wrong-length table: for every N in {8,12,16,24,32,64} and every count 0..=2N, a JSON element sequence, a bincode byte string, the bytes visitor and the seq visitor must be refused exactly when count != N (never padded, truncated or panicking), also nested in KeyPair / DryocBox / DryocSecretBox / SignedMessage documents, TryFrom<&[u8]> and from_slice_into_locked. Decode-after-refusal sequences on one thread (over-long, malformed-element and short sequences each followed by a valid decode that must succeed with the right bytes; then an empty sequence that must be refused). The committed decoder-fuzzing corpus is replayed through the decoder oracle (no panic; whatever decodes re-encodes stably). Non-trivial: a serde round-trip with payload >= 1 or any wrong-length case; distinct = (case hash).".into();
    ctx.assumptions = vec!["fixed-length enforcement is demanded only of fixed-length container types (Vec<u8> keys have no length to enforce)".into()];
    let l = ctx.tier.pick(200usize, 600);
    let fills = ctx.tier.pick(4usize, 48);
    let mut cases = vec![];
    for len in 0..=if nightly_part { l.min(200) } else { l } {
        for fi in 0..if nightly_part { 1 } else { fills } {
            let mut f = Fill::new(ctx.seed, &format!("C16:{len}:{fi}"));
            cases.push(Case::RoundTrip { payload: Hex(f.content(fi, len)), fill: f.next_u64() });
        }
    }
    for n in [8usize, 12, 16, 24, 32, 64] {
        for count in 0..=2 * n {
            cases.push(Case::WrongLength { n, count });
        }
    }
    for i in 0..ctx.tier.pick(64u64, 2048) {
        cases.push(Case::AfterRefusal { fill: ctx.seed.wrapping_mul(31).wrapping_add(i) });
    }
    ctx.par_each(&cases, |_, c, ev| {
        let n = check(c).map_err(|m| Violation::new("C16", "encoding", m, serde_json::to_value(c).unwrap()))?;
        ev.eval(n);
        match c {
            Case::RoundTrip { payload, .. } => {
                ev.class_n(if nightly_part { "round-trip-evaluations(nightly build)" } else { "round-trip-evaluations" }, n);
                if !payload.is_empty() {
                    ev.nontrivial(fnv64(&[b"rt", payload, &[nightly_part as u8]]));
                }
                if payload.len() == 5 {
                    ev.sample("roundtrip", || json!({"payload": hx(payload), "evaluations": n}));
                }
            }
            Case::AfterRefusal { fill } => {
                ev.class_n(if nightly_part { "decode-after-refusal-evaluations(nightly build)" } else { "decode-after-refusal-evaluations" }, n);
                ev.nontrivial(fnv64(&[b"ar", &fill.to_le_bytes(), &[nightly_part as u8]]));
            }
            Case::WrongLength { n: nn, count } => {
                ev.class_n(if nightly_part { "wrong-length-evaluations(nightly build)" } else { "wrong-length-evaluations" }, n);
                ev.nontrivial(fnv64(&[b"wl", &nn.to_le_bytes(), &count.to_le_bytes(), &[nightly_part as u8]]));
                if *count == nn + 1 {
                    ev.sample(&format!("wrong-length-{nn}"), || json!({"fixed_length": nn, "encoded_count": count}));
                }
            }
        }
        Ok(())
    })?;
    if !nightly_part {
        // the committed libFuzzer corpus of the decoder target, through the plain oracle (no fuzzer involved)
        let verif = std::env::var("VERIF_DIR").unwrap_or("/verif".into());
        let mut files: Vec<_> = std::fs::read_dir(format!("{verif}/corpus/decoders")).map(|rd| rd.filter_map(|e| e.ok()).map(|e| e.path()).collect()).unwrap_or_default();
        files.sort();
        ctx.par_each(&files, |_, p, ev| {
            let Ok(data) = std::fs::read(p) else { return Ok(()) };
            ev.eval(1);
            ev.class("decoder-corpus-replay");
            decode_fuzz(&data).map_err(|m| Violation::new("C16", "decoder-bytes", format!("{m} (corpus file {})", p.display()), json!({"bytes": hex::encode(&data)})))
        })?;
    }
    Ok(())
}

pub fn replay(v: &Violation) -> Result<(), String> {
    if v.kind == "decoder-bytes" {
        let b = hex::decode(v.case["bytes"].as_str().unwrap_or("")).map_err(|e| e.to_string())?;
        return decode_fuzz(&b);
    }
    let c: Case = from_case(&v.case)?;
    check(&c).map(|_| ())
}

// ---------------------------------------------------------------- decoder oracle shared with the libFuzzer target
fn both<T: Serialize + DeserializeOwned>(what: &str, data: &[u8]) -> Result<(), String> {
    if let Ok(v) = np(what, || bincode::deserialize::<T>(data))? {
        let e = bincode::serialize(&v).map_err(|e| format!("{what}: re-encode: {e}"))?;
        let v2: T = bincode::deserialize(&e).map_err(|e| format!("{what}: its own bincode encoding does not decode: {e}"))?;
        if bincode::serialize(&v2).map_err(|e| e.to_string())? != e {
            return Err(format!("{what}: bincode round trip is not stable"));
        }
    }
    if let Ok(v) = np(what, || serde_json::from_slice::<T>(data))? {
        let e = serde_json::to_vec(&v).map_err(|e| format!("{what}: re-encode: {e}"))?;
        let v2: T = serde_json::from_slice(&e).map_err(|e| format!("{what}: its own JSON does not decode: {e}"))?;
        if serde_json::to_vec(&v2).map_err(|e| e.to_string())? != e {
            return Err(format!("{what}: JSON round trip is not stable"));
        }
    }
    Ok(())
}

/// arbitrary bytes -> (type selector, encoding); no decoder may panic and whatever decodes must re-encode stably
pub fn decode_fuzz(data: &[u8]) -> Result<(), String> {
    if data.is_empty() {
        return Ok(());
    }
    let d = &data[1..];
    match data[0] % 11 {
        0 => both::<SB<32>>("StackByteArray<32>", d),
        1 => both::<SB<16>>("StackByteArray<16>", d),
        2 => both::<DryocBox<SB<32>, SB<16>, Vec<u8>>>("DryocBox", d),
        3 => both::<DryocSecretBox<SB<16>, Vec<u8>>>("DryocSecretBox", d),
        4 => both::<SignedMessage<SB<64>, Vec<u8>>>("SignedMessage", d),
        5 => both::<KeyPair<SB<32>, SB<32>>>("KeyPair", d),
        6 => both::<SigningKeyPair<SB<32>, SB<64>>>("SigningKeyPair", d),
        7 => both::<Session<SB<32>>>("kx::Session", d),
        8 => both::<Kdf<SB<32>, SB<8>>>("Kdf", d),
        9 => both::<PwHash<Vec<u8>, Vec<u8>>>("PwHash", d),
        _ => both::<SB<64>>("StackByteArray<64>", d),
    }
}
