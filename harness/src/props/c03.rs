//! C03 — secret streams authenticate order, tags and rekeying in lockstep with libsodium (model-based).
use crate::core::*;
use crate::sodium;
use dryoc::classic::crypto_secretstream_xchacha20poly1305 as css;
use dryoc::dryocstream::{DryocStream, Pull, Push, Tag};
use proptest::prelude::*;
use serde::{Deserialize, Serialize};
use serde_json::json;
use std::collections::VecDeque;

#[derive(Debug, Clone, Copy, PartialEq, Eq, Serialize, Deserialize)]
pub enum Api {
    Classic,
    Object,
}

#[derive(Debug, Clone, PartialEq, Eq, Serialize, Deserialize)]
pub enum Wrong {
    Replay,
    Skip(usize),
    Foreign,
    AdFlip(usize),
    AdDrop,
    AdExtend,
    BitFlip(usize),
    Truncate(usize),
    Extend(usize),
    /// the genuine next ciphertext, but a caller buffer too small for its message (classic API): the pull
    /// is refused, and a refused pull must leave the stream where it was
    ShortBuffer(usize),
}

#[derive(Debug, Clone, PartialEq, Eq, Serialize, Deserialize)]
pub enum Op {
    Push { mlen: usize, adlen: Option<usize>, tag: u8, api: Api },
    Rekey { api: Api },
    DeliverNext { api: Api },
    DeliverWrong { w: Wrong, api: Api },
}

#[derive(Debug, Clone, Copy, PartialEq, Eq, Serialize, Deserialize)]
pub enum Start {
    Fresh,
    Counter(u32),
}

#[derive(Debug, Clone, Serialize, Deserialize)]
pub struct Case {
    pub start: Start,
    pub fill: u64,
    pub ops: Vec<Op>,
}

enum Wire {
    Ct { ct: Vec<u8>, ad: Option<Vec<u8>>, msg: Vec<u8>, tag: u8, foreign: Vec<u8> },
    RekeyMarker,
}

fn parts_eq(d: &css::State, s: &sodium::StreamState) -> bool {
    let (k, n) = d.verif_parts();
    k == s.k && n == s.nonce
}

fn dpush(st: &mut css::State, api: Api, m: &[u8], ad: Option<&[u8]>, tag: u8) -> Result<Vec<u8>, String> {
    match api {
        Api::Classic => {
            let mut c = vec![0xa5u8; m.len() + 17]; // the caller's ciphertext buffer is not zero on entry
            css::crypto_secretstream_xchacha20poly1305_push(st, &mut c, m, ad, tag).map_err(|e| format!("push: {e:?}"))?;
            Ok(c)
        }
        Api::Object => {
            let mut s: DryocStream<Push> = DryocStream::verif_from_state(st.clone());
            let adv = ad.map(|a| a.to_vec());
            let c: Vec<u8> = s.push(&m.to_vec(), adv.as_ref(), Tag::from_bits_retain(tag)).map_err(|e| format!("DryocStream::push: {e:?}"))?;
            *st = s.verif_state().clone();
            Ok(c)
        }
    }
}

fn dpull(st: &mut css::State, api: Api, c: &[u8], ad: Option<&[u8]>) -> Result<(Vec<u8>, u8), String> {
    match api {
        Api::Classic => {
            let mut m = vec![0x5au8; c.len().saturating_sub(17)]; // dirty message buffer
            let mut tag = 0xA5u8;
            let n = css::crypto_secretstream_xchacha20poly1305_pull(st, &mut m, &mut tag, c, ad).map_err(|e| format!("{e:?}"))?;
            m.truncate(n);
            Ok((m, tag))
        }
        Api::Object => {
            let mut s: DryocStream<Pull> = DryocStream::verif_from_state(st.clone());
            let adv = ad.map(|a| a.to_vec());
            let r = s.pull_to_vec(&c.to_vec(), adv.as_ref());
            *st = s.verif_state().clone();
            r.map(|(m, t)| (m, t.bits())).map_err(|e| format!("{e:?}"))
        }
    }
}

fn drekey(st: &mut css::State, api: Api) {
    match api {
        Api::Classic => css::crypto_secretstream_xchacha20poly1305_rekey(st),
        Api::Object => {
            let mut s: DryocStream<Push> = DryocStream::verif_from_state(st.clone());
            s.rekey();
            *st = s.verif_state().clone();
        }
    }
}

#[derive(Default)]
pub struct Stats {
    pub wrong_then_ok: bool,
    pub crossed_rekey: bool,
    pub classes: Vec<String>,
    pub steps: u64,
    pub excluded: u64,
}

pub fn check(c: &Case, stats: &mut Stats) -> Result<(), String> {
    let mut f = Fill::new(c.fill, "C03");
    let key: [u8; 32] = f.arr();
    // start states
    let (mut dps, mut dpl, mut sps, mut spl);
    match c.start {
        Start::Fresh => {
            // dryoc chooses the header; both libraries then derive their states from it
            let mut header = [0u8; 24];
            let mut st = css::State::new();
            css::crypto_secretstream_xchacha20poly1305_init_push(&mut st, &mut header, &key);
            dps = st;
            dpl = css::State::new();
            css::crypto_secretstream_xchacha20poly1305_init_pull(&mut dpl, &header, &key);
            sps = sodium::stream_init_pull(&header, &key);
            spl = sodium::stream_init_pull(&header, &key);
            // object-API initialisation must agree as well
            let o: DryocStream<Pull> = DryocStream::init_pull(&key, &header);
            if o.verif_state() != &dpl {
                return Err("DryocStream::init_pull state differs from classic init_pull".into());
            }
            if !parts_eq(&dps, &sps) || !parts_eq(&dpl, &spl) {
                return Err("initial state (k, nonce) differs from libsodium's for the same key and header".into());
            }
        }
        Start::Counter(n) => {
            let k: [u8; 32] = f.arr();
            let mut nonce = [0u8; 12];
            nonce[..4].copy_from_slice(&n.to_le_bytes());
            nonce[4..].copy_from_slice(&f.arr::<8>());
            dps = css::State::verif_from_parts(k, nonce);
            dpl = css::State::verif_from_parts(k, nonce);
            sps = sodium::stream_state(k, nonce);
            spl = sodium::stream_state(k, nonce);
        }
    }
    // a foreign stream for "taken from another stream"
    let mut foreign = sodium::stream_init_pull(&f.arr(), &f.arr());
    let mut queue: VecDeque<Wire> = VecDeque::new();
    let mut last_delivered: Option<(Vec<u8>, Option<Vec<u8>>)> = None;
    let mut pending_wrong = false;

    let mut ops = c.ops.clone();
    // drain at the end so every pushed message is also pulled
    for _ in 0..c.ops.len() + 2 {
        ops.push(Op::DeliverNext { api: Api::Classic });
        ops.push(Op::DeliverNext { api: Api::Object });
    }
    for (step, op) in ops.iter().enumerate() {
        stats.steps += 1;
        match op {
            Op::Push { mlen, adlen, tag, api } => {
                let msg = f.bytes(*mlen);
                let ad = adlen.map(|n| f.bytes(n));
                let before_ctr = dps.verif_parts().1[..4].to_vec();
                let dc = dpush(&mut dps, *api, &msg, ad.as_deref(), *tag).map_err(|e| format!("step {step}: {e}"))?;
                let sc = sodium::stream_push(&mut sps, &msg, ad.as_deref(), *tag);
                if dc != sc {
                    return Err(format!("step {step}: push(mlen={mlen}, adlen={adlen:?}, tag={tag:#x}, {api:?}) ciphertext {} != libsodium {}", hx(&dc[..dc.len().min(48)]), hx(&sc[..sc.len().min(48)])));
                }
                if !parts_eq(&dps, &sps) {
                    return Err(format!("step {step}: push-side state after push(tag={tag:#x}, counter before {}) differs from libsodium's", hx(&before_ctr)));
                }
                if tag & 2 != 0 {
                    stats.crossed_rekey = true;
                    stats.classes.push("tag-rekey".into());
                }
                if before_ctr == [0xff, 0xff, 0xff, 0xff] {
                    stats.crossed_rekey = true;
                    stats.classes.push("counter-wrap".into());
                }
                let fct = sodium::stream_push(&mut foreign, &msg, ad.as_deref(), *tag);
                queue.push_back(Wire::Ct { ct: dc, ad, msg, tag: *tag, foreign: fct });
            }
            Op::Rekey { api } => {
                drekey(&mut dps, *api);
                sodium::stream_rekey(&mut sps);
                if !parts_eq(&dps, &sps) {
                    return Err(format!("step {step}: push-side state after explicit rekey differs from libsodium's"));
                }
                queue.push_back(Wire::RekeyMarker);
                stats.crossed_rekey = true;
                stats.classes.push("manual-rekey".into());
            }
            Op::DeliverNext { api } => match queue.pop_front() {
                None => {}
                Some(Wire::RekeyMarker) => {
                    drekey(&mut dpl, *api);
                    sodium::stream_rekey(&mut spl);
                    if !parts_eq(&dpl, &spl) {
                        return Err(format!("step {step}: pull-side state after explicit rekey differs from libsodium's"));
                    }
                }
                Some(Wire::Ct { ct, ad, msg, tag, .. }) => {
                    let sr = sodium::stream_pull(&mut spl, &ct, ad.as_deref());
                    if sr.as_ref().map(|(m, t)| (m.as_slice(), *t)) != Some((msg.as_slice(), tag)) {
                        return Err(format!("step {step}: harness: libsodium did not pull its own in-order message"));
                    }
                    match dpull(&mut dpl, *api, &ct, ad.as_deref()) {
                        Ok((m, t)) => {
                            if m != msg || t != tag {
                                return Err(format!("step {step}: in-order pull ({api:?}) returned (len {}, tag {t:#x}) instead of the pushed (len {}, tag {tag:#x})", m.len(), msg.len()));
                            }
                        }
                        Err(e) => return Err(format!("step {step}: genuine next ciphertext rejected by {api:?} pull{}: {e}", if pending_wrong { " after a rejected wrong delivery" } else { "" })),
                    }
                    if !parts_eq(&dpl, &spl) {
                        return Err(format!("step {step}: pull-side state after pulling tag {tag:#x} differs from libsodium's"));
                    }
                    if pending_wrong {
                        stats.wrong_then_ok = true;
                        pending_wrong = false;
                    }
                    last_delivered = Some((ct, ad));
                }
            },
            Op::DeliverWrong { w: Wrong::ShortBuffer(k), .. } => {
                let Some(Wire::Ct { ct, ad, msg, .. }) = queue.front() else { continue };
                if msg.is_empty() {
                    continue;
                }
                let blen = msg.len() - 1 - k % msg.len();
                let before = dpl.clone();
                let before_parts = dpl.verif_parts();
                let mut m = vec![0u8; blen];
                let mut tag = 0xA5u8;
                match no_panic(|| css::crypto_secretstream_xchacha20poly1305_pull(&mut dpl, &mut m, &mut tag, ct, ad.as_deref())) {
                    // a panic on a caller-side sizing mistake is outside this property; the history ends here
                    Err(_) => {
                        stats.excluded += 1;
                        return Ok(());
                    }
                    Ok(Ok(_)) => return Err(format!("step {step}: pull returned Ok into a {blen}-byte buffer although the pushed message has {} bytes", msg.len())),
                    Ok(Err(_)) => {}
                }
                if dpl != before || dpl.verif_parts() != before_parts {
                    return Err(format!("step {step}: a pull refused because the caller's buffer ({blen} bytes) is too small for the {}-byte message changed the pull stream state", msg.len()));
                }
                pending_wrong = true;
                stats.classes.push("short-buffer".into());
            }
            Op::DeliverWrong { w, api } => {
                // genuine next (skipping markers is not allowed: a marker means the puller must rekey first)
                let next = match queue.front() {
                    Some(Wire::Ct { ct, ad, .. }) => Some((ct.clone(), ad.clone())),
                    _ => None,
                };
                let cand: Option<(Vec<u8>, Option<Vec<u8>>)> = match w {
                    Wrong::Replay => last_delivered.clone(),
                    Wrong::Skip(k) => {
                        let cts: Vec<_> = queue.iter().filter_map(|w| if let Wire::Ct { ct, ad, .. } = w { Some((ct.clone(), ad.clone())) } else { None }).collect();
                        if matches!(queue.front(), Some(Wire::Ct { .. })) && cts.len() >= 2 {
                            Some(cts[1 + k % (cts.len() - 1)].clone())
                        } else {
                            None
                        }
                    }
                    Wrong::Foreign => match queue.front() {
                        Some(Wire::Ct { foreign, ad, .. }) => Some((foreign.clone(), ad.clone())),
                        _ => None,
                    },
                    Wrong::AdFlip(b) => next.as_ref().and_then(|(ct, ad)| {
                        ad.as_ref().filter(|a| !a.is_empty()).map(|a| {
                            let mut a2 = a.clone();
                            let bit = b % (a2.len() * 8);
                            a2[bit / 8] ^= 1 << (bit % 8);
                            (ct.clone(), Some(a2))
                        })
                    }),
                    Wrong::AdDrop => next.as_ref().and_then(|(ct, ad)| ad.as_ref().filter(|a| !a.is_empty()).map(|_| (ct.clone(), None))),
                    Wrong::AdExtend => next.as_ref().map(|(ct, ad)| {
                        let mut a2 = ad.clone().unwrap_or_default();
                        a2.push(0);
                        (ct.clone(), Some(a2))
                    }),
                    Wrong::BitFlip(b) => next.as_ref().map(|(ct, ad)| {
                        let mut c2 = ct.clone();
                        let bit = b % (c2.len() * 8);
                        c2[bit / 8] ^= 1 << (bit % 8);
                        (c2, ad.clone())
                    }),
                    Wrong::Truncate(k) => next.as_ref().map(|(ct, ad)| {
                        let mut c2 = ct.clone();
                        c2.truncate(ct.len() - 1 - k % ct.len());
                        (c2, ad.clone())
                    }),
                    Wrong::Extend(k) => next.as_ref().map(|(ct, ad)| {
                        let mut c2 = ct.clone();
                        c2.extend(std::iter::repeat(0u8).take(1 + k % 20));
                        (c2, ad.clone())
                    }),
                    Wrong::ShortBuffer(_) => None, // handled above
                };
                let Some((wc, wad)) = cand else { continue };
                // reference verdict on a copy of the reference pull state
                let mut spl2 = sodium::stream_state(spl.k, spl.nonce);
                if sodium::stream_pull(&mut spl2, &wc, wad.as_deref()).is_some() {
                    stats.excluded += 1; // not actually out of position (e.g. replay of an identical state): not a wrong delivery
                    continue;
                }
                let before = dpl.clone();
                let before_parts = dpl.verif_parts();
                match no_panic(|| dpull(&mut dpl, *api, &wc, wad.as_deref())) {
                    Err(p) => return Err(format!("step {step}: {api:?} pull panicked on wrong delivery {w:?}: {p} at {}", last_panic_loc())),
                    Ok(Ok(_)) => return Err(format!("step {step}: ciphertext presented out of position ({w:?}) was ACCEPTED by {api:?} pull (libsodium rejects it)")),
                    Ok(Err(_)) => {}
                }
                if dpl != before || dpl.verif_parts() != before_parts {
                    return Err(format!("step {step}: rejected pull ({w:?}, {api:?}) changed the pull stream state"));
                }
                if !parts_eq(&dpl, &spl) {
                    return Err(format!("step {step}: pull state no longer equals libsodium's after a rejected pull"));
                }
                pending_wrong = true;
                stats.classes.push(
                    match w {
                        Wrong::Replay => "replay",
                        Wrong::Skip(_) => "skip/swap",
                        Wrong::Foreign => "foreign",
                        Wrong::AdFlip(_) | Wrong::AdDrop | Wrong::AdExtend => "wrong-AD",
                        Wrong::BitFlip(_) => "bit-flip",
                        Wrong::Truncate(_) | Wrong::Extend(_) => "truncate/extend",
                        Wrong::ShortBuffer(_) => "short-buffer",
                    }
                    .into(),
                );
            }
        }
    }
    if !queue.is_empty() {
        return Err("harness: queue not drained".into());
    }
    if !parts_eq(&dps, &sps) || !parts_eq(&dpl, &spl) || dps.verif_parts() != dpl.verif_parts() {
        return Err("final states: push and pull sides (dryoc and libsodium) are not all equal after delivering everything".into());
    }
    Ok(())
}

fn api_strat() -> impl Strategy<Value = Api> {
    prop_oneof![Just(Api::Classic), Just(Api::Object)]
}

fn op_strat() -> impl Strategy<Value = Op> {
    let mlen = prop_oneof![16 => 0usize..=200, 4 => Just(1024usize), 4 => 60usize..=70, 1 => 4090usize..=4100, 1 => Just(8193usize), 1 => Just(12289usize)];
    let adlen = prop_oneof![2 => Just(None), 3 => (0usize..=40).prop_map(Some)];
    let tag = prop_oneof![6 => Just(0u8), 2 => Just(1u8), 2 => Just(2u8), 2 => Just(3u8), 2 => any::<u8>()];
    let wrong = prop_oneof![
        3 => Just(Wrong::Replay),
        3 => (0usize..4).prop_map(Wrong::Skip),
        2 => Just(Wrong::Foreign),
        2 => (0usize..400).prop_map(Wrong::AdFlip),
        1 => Just(Wrong::AdDrop),
        1 => Just(Wrong::AdExtend),
        3 => (0usize..4000).prop_map(Wrong::BitFlip),
        1 => (0usize..300).prop_map(Wrong::Truncate),
        1 => (0usize..20).prop_map(Wrong::Extend),
        2 => (0usize..300).prop_map(Wrong::ShortBuffer),
    ];
    prop_oneof![
        5 => (mlen, adlen, tag, api_strat()).prop_map(|(mlen, adlen, tag, api)| Op::Push { mlen, adlen, tag, api }),
        1 => api_strat().prop_map(|api| Op::Rekey { api }),
        4 => api_strat().prop_map(|api| Op::DeliverNext { api }),
        4 => (wrong, api_strat()).prop_map(|(w, api)| Op::DeliverWrong { w, api }),
    ]
}

pub fn case_strat(depth: usize) -> impl Strategy<Value = Case> {
    let start = prop_oneof![
        3 => Just(Start::Fresh),
        1 => Just(Start::Counter(2)),
        1 => Just(Start::Counter(0x7fff_ffff)),
        2 => Just(Start::Counter(0xffff_fffe)),
        2 => Just(Start::Counter(0xffff_ffff)),
        1 => Just(Start::Counter(0xffff_fffd)),
    ];
    (start, any::<u64>(), proptest::collection::vec(op_strat(), 0..=depth)).prop_map(|(start, fill, ops)| Case { start, fill, ops })
}

pub fn run(ctx: &mut Ctx) -> Result<(), Violation> {
    ctx.rule = "proptest histories vec(op, 0..=D) over {Push(mlen 0..=200|1024|4090..=4100|8193|12289, caller buffers pre-filled with a non-zero pattern, adlen None|0..=40, any tag byte, classic|object API), Rekey, DeliverNext, DeliverWrong(replay|skip/swap|foreign stream|AD flipped/dropped/extended|bit flip|truncate|extend|genuine ciphertext into an undersized caller buffer)} from start classes {fresh, counter 2, 0x7fffffff, 0xfffffffd, 0xfffffffe, 0xffffffff} (preset through the verif_hooks constructor and libsodium's public state struct), interpreted in lock-step against dryoc push, dryoc pull, libsodium push and libsodium pull; all queued messages are delivered at the end. Oracle after every step: ciphertext bytes equal; (k, nonce) of dryoc state == libsodium state; in-order pull returns the pushed (message, tag); a wrong delivery (one libsodium rejects from the same state) returns Err without panic and leaves the dryoc pull state bit-identical (PartialEq and hook), after which the genuine next ciphertext is accepted. Non-trivial: history with >= 1 rejected wrong delivery followed by a successful pull, or that crosses a rekey (explicit, tag-driven, counter wrap); distinct = hash(history). Message-length residues mod 16/64 are additionally enumerated (0..=200) in a deterministic pass.".into();
    ctx.assumptions = vec![
        "libsodium's crypto_secretstream is the reference state machine".into(),
        "counter classes near 2^32 are reached through the feature-guarded State::verif_from_parts hook".into(),
    ];
    let depth = ctx.tier.pick(14usize, 40);
    let total = ctx.tier.pick(400_000usize, 16_000_000);
    let threads = ctx.threads.max(1);
    // deterministic pass: every message length 0..=200 x ad residues, each with a wrong delivery in between
    let mut det: Vec<Case> = vec![];
    for mlen in (0..=200usize).chain([255, 256, 257, 1023, 1024, 1025, 4095, 4096, 4097, 4098, 8191, 8192, 8193, 12288, 12289, 16385, 65537]) {
        for (i, start) in [Start::Fresh, Start::Counter(0xffff_fffe)].iter().enumerate() {
            let adlen = if mlen % 3 == 0 { None } else { Some(mlen % 41) };
            det.push(Case {
                start: *start,
                fill: ctx.seed ^ (mlen as u64) << 8 ^ i as u64,
                ops: vec![
                    Op::Push { mlen, adlen, tag: (mlen % 4) as u8, api: if mlen % 2 == 0 { Api::Classic } else { Api::Object } },
                    Op::Push { mlen: (mlen * 7) % 130, adlen: None, tag: if mlen % 5 == 0 { mlen as u8 } else { 0 }, api: Api::Object },
                    Op::DeliverWrong { w: Wrong::Skip(0), api: Api::Classic },
                    Op::DeliverWrong { w: Wrong::BitFlip(mlen * 13), api: Api::Object },
                    Op::DeliverNext { api: if mlen % 2 == 0 { Api::Object } else { Api::Classic } },
                    Op::DeliverWrong { w: Wrong::Replay, api: Api::Classic },
                ],
            });
        }
    }
    let seed = ctx.seed;
    ctx.par_each(&det, |_, c, ev| {
        let mut st = Stats::default();
        ev.eval(1);
        let r = check(c, &mut st);
        ev.class("deterministic-length-sweep");
        if st.wrong_then_ok || st.crossed_rekey {
            ev.nontrivial(fnv64(&[serde_json::to_string(c).unwrap().as_bytes()]));
        }
        r.map_err(|m| Violation::new("C03", "stream-history", m, serde_json::to_value(c).unwrap()))
    })?;
    // random histories: one proptest runner per worker, each with its own derived seed
    let shards: Vec<u64> = (0..threads as u64).collect();
    let per = (total / threads).max(1) as u32;
    ctx.par_each(&shards, |_, &sh, ev| {
        run_prop("C03", "stream-history", seed.wrapping_mul(1000).wrapping_add(sh), per, case_strat(depth), ev, |c, ev| {
            let mut st = Stats::default();
            ev.eval(1);
            let r = check(c, &mut st);
            for cl in &st.classes {
                ev.class(cl);
            }
            ev.class(&format!("start-{:?}", c.start));
            if st.excluded > 0 {
                ev.class_n("wrong-delivery-not-actually-wrong(excluded)", st.excluded);
            }
            ev.class_n("steps", st.steps);
            if st.wrong_then_ok || st.crossed_rekey {
                ev.nontrivial(fnv64(&[serde_json::to_string(c).unwrap().as_bytes()]));
                if st.wrong_then_ok {
                    ev.class("history:wrong-delivery-then-successful-pull");
                }
                if st.crossed_rekey {
                    ev.class("history:crosses-rekey");
                }
            }
            ev.sample(&format!("ops{}-{:?}", c.ops.len().min(3), c.start), || json!({"start": format!("{:?}", c.start), "ops": c.ops.iter().map(|o| format!("{o:?}")).collect::<Vec<_>>()}));
            r
        })
    })?;
    Ok(())
}

pub fn replay(v: &Violation) -> Result<(), String> {
    let c: Case = from_case(&v.case)?;
    check(&c, &mut Stats::default())
}
