//! C02 — any tampering with an authenticated ciphertext is rejected (fault enumeration).
//! C17 shares this enumerator (mode = C17): a failed open releases nothing derived from the ciphertext.
use crate::aead::*;
use crate::core::*;
use crate::sodium;
use serde::{Deserialize, Serialize};
use serde_json::json;

#[derive(Clone, Copy, PartialEq, Eq, Debug)]
pub enum Mode {
    C02,
    C17,
}

#[derive(Debug, Clone, Serialize, Deserialize)]
pub struct Case {
    pub material: Material,
    pub fault: Fault,
    pub opener: Opener,
}

/// every byte is either what the caller passed in or zero (an implementation may clear the plaintext area only)
fn unchanged_or_zero(before: &[u8], after: &[u8]) -> bool {
    before.len() == after.len() && before.iter().zip(after.iter()).all(|(b, a)| a == b || *a == 0)
}

/// Evaluate one (material, fault, opener). Ok(true) = evaluated, Ok(false) = not applicable.
pub fn check_one(mode: Mode, authentic: &Material, fault: &Fault, op: Opener) -> Result<bool, String> {
    let m = apply(authentic, fault);
    let Some(res) = open_caught(op, &m) else { return Ok(false) };
    let is_control = *fault == Fault::None;
    let o = match res {
        Ok(o) => o,
        Err(p) => {
            return Err(format!("{}: {p} on {} input", op.name(), if is_control { "authentic" } else { "tampered" }));
        }
    };
    if is_control {
        return match &o.result {
            Ok(pt) if pt[..] == authentic.msg[..] => {
                if mode == Mode::C17 {
                    if let Some(t) = o.tag_after {
                        if t != authentic.stream_tag {
                            return Err(format!("{}: tag output {t} for an authentic message pushed with tag {}", op.name(), authentic.stream_tag));
                        }
                    }
                }
                Ok(true)
            }
            Ok(pt) => Err(format!("{}: authentic input opened to {} instead of {}", op.name(), hx(pt), hx(&authentic.msg))),
            Err(e) => Err(format!("{}: authentic (untampered) input rejected: {e}", op.name())),
        };
    }
    match mode {
        Mode::C02 => {
            if let Ok(pt) = &o.result {
                return Err(format!(
                    "{}: tampered input ({:?}) accepted, returned {} bytes",
                    op.name(),
                    fault,
                    pt.len()
                ));
            }
        }
        Mode::C17 => {
            if o.result.is_ok() {
                return Ok(true); // acceptance of tampered input is C02's violation, not C17's
            }
            if let (Some(before), Some(after)) = (&o.buf_before, &o.buf_after) {
                if !unchanged_or_zero(before, after) {
                    let forged = forged_plaintext(&m);
                    let leak = forged.as_ref().map_or(false, |f| {
                        !f.is_empty() && after.windows(f.len().min(8)).any(|w| f.windows(f.len().min(8)).any(|x| x == w))
                    });
                    return Err(format!(
                        "{}: open failed ({:?}) but the caller's {} buffer was modified: before {} after {}{}",
                        op.name(),
                        fault,
                        if o.inplace { "in-place" } else { "message" },
                        hx(&before[..before.len().min(48)]),
                        hx(&after[..after.len().min(48)]),
                        if leak { " — it holds the unauthenticated decryption of the rejected ciphertext" } else { "" }
                    ));
                }
            }
            if let Some(t) = o.tag_after {
                if t != TAG_SENTINEL {
                    return Err(format!("{}: pull failed ({:?}) but the tag output was updated to {t:#x}", op.name(), fault));
                }
            }
        }
    }
    Ok(true)
}

pub fn run_mode(ctx: &mut Ctx, mode: Mode) -> Result<(), Violation> {
    let pid = if mode == Mode::C02 { "C02" } else { "C17" };
    ctx.level = "fault_enumeration";
    let lens: Vec<usize> = match ctx.tier {
        Tier::Quick => vec![0, 1, 2, 15, 16, 17, 31, 32, 33, 63, 64, 65, 127, 128, 129],
        Tier::Thorough => (0..=200).collect(),
    };
    let kinds = [Kind::SecretBox, Kind::Box, Kind::Precalc, Kind::Sealed, Kind::Stream];
    let fills = ctx.tier.pick(2usize, 10);
    let mut items = vec![];
    for &k in &kinds {
        for &l in &lens {
            for fi in 0..fills {
                items.push((k, l, fi));
            }
        }
    }
    let seed = ctx.seed;
    ctx.par_each(&items, |_, &(kind, len, fi), ev| {
        let mut f = Fill::new(seed, &format!("aead:{kind:?}:{len}:{fi}"));
        let msg = f.content(if fi == 0 { 0 } else { 2 }, len);
        let auth = authentic(kind, &mut f, &msg);
        if sodium_accepts(&auth).as_deref() != Some(&msg[..]) {
            return Err(Violation::new(pid, "harness", "harness: libsodium does not open its own ciphertext", json!({})));
        }
        let mut fl = vec![Fault::None];
        fl.extend(faults(&auth));
        let openers: Vec<Opener> = ALL_OPENERS
            .iter()
            .copied()
            .filter(|o| o.kind() == kind)
            .collect();
        // C17: the error returned for a rejected input must not depend on the rejected bytes (e.g. carry the
        // computed MAC): two rejected inputs of the same shape must produce the same error text.
        let mut err_texts: std::collections::HashMap<(String, usize, usize), (String, String)> = Default::default();
        for fault in &fl {
            if *fault != Fault::None {
                // guard the harness's own fault construction: the reference must reject it too
                let fm = apply(&auth, fault);
                if sodium_accepts(&fm).is_some() {
                    ev.excluded("fault-accepted-by-reference");
                    continue;
                }
            }
            for &op in &openers {
                if mode == Mode::C02 && *fault != Fault::None {
                    // (a) extension presented to a caller with a fixed-size plaintext buffer must not be accepted
                    if let Fault::Extend(..) = fault {
                        if open_fixed_buffer_accepts(op, &apply(&auth, fault), auth.msg.len()) == Some(true) {
                            let c = Case { material: auth.clone(), fault: fault.clone(), opener: op };
                            return Err(Violation::new(pid, "aead-fault-fixed-buffer", format!("{}: an extended ciphertext ({fault:?}) was ACCEPTED when the caller's message buffer has the size of the original plaintext", op.name()), serde_json::to_value(&c).unwrap()));
                        }
                        ev.eval(1);
                    }
                    // (b) stream: after the tampered message is rejected, the untampered one is still accepted on the same state
                    if let Some((r1, Some(r2))) = stream_pull_then_authentic(op, &apply(&auth, fault), &auth) {
                        ev.eval(1);
                        ev.class(&format!("{}:authentic-after-rejected", op.name()));
                        if r1.is_err() && r2.as_deref().ok() != Some(&auth.msg[..]) {
                            let c = Case { material: auth.clone(), fault: fault.clone(), opener: op };
                            return Err(Violation::new(pid, "aead-fault-then-authentic", format!("{}: after rejecting a tampered message ({fault:?}) the untampered message was not accepted on the same pull state: {:?}", op.name(), r2.err()), serde_json::to_value(&c).unwrap()));
                        }
                    }
                }
                if mode == Mode::C17 {
                    // a caller whose message buffer has the size of the plaintext it expects, given a TRUNCATED ciphertext
                    if let Fault::Truncate(k) = fault {
                        if *k <= auth.ct.len() && kind != Kind::Stream {
                            if let Some((before, after, ok)) = open_fixed_buffer_observe(op, &apply(&auth, fault), auth.msg.len()) {
                                ev.eval(1);
                                if !ok && !unchanged_or_zero(&before, &after) {
                                    let c = Case { material: auth.clone(), fault: fault.clone(), opener: op };
                                    return Err(Violation::new(pid, "aead-fault-fixed-buffer-leak", format!("{}: open of a truncated ciphertext ({fault:?}) into a buffer sized for the expected plaintext failed but left data in it: before {} after {}", op.name(), hx(&before[..before.len().min(40)]), hx(&after[..after.len().min(40)])), serde_json::to_value(&c).unwrap()));
                                }
                            }
                        }
                    }
                }
                if mode == Mode::C17 && *fault != Fault::None {
                    let fm = apply(&auth, fault);
                    if let Some(Ok(o)) = open_caught(op, &fm) {
                        let err_text: Option<String> = match &o.result {
                            Err(t) if t != "prior message rejected" => Some(t.clone()), // (that text is the harness's own)
                            _ => None,
                        };
                        if let Some(text) = &err_text {
                            let key = (op.name(), fm.wire().len(), fm.ad.as_ref().map_or(usize::MAX, |a| a.len()));
                            let this = format!("{fault:?}");
                            match err_texts.get(&key) {
                                None => {
                                    err_texts.insert(key, (text.clone(), this));
                                }
                                Some((first_text, first_fault)) => {
                                    if first_text != text {
                                        let c = Case { material: auth.clone(), fault: fault.clone(), opener: op };
                                        return Err(Violation::new(pid, "aead-fault-error-text", format!("{}: the error returned for a rejected input depends on the rejected bytes: fault {first_fault} gave \"{first_text}\" but fault {this} (same lengths) gave \"{text}\"", op.name()), serde_json::to_value(&c).unwrap()));
                                    }
                                }
                            }
                        }
                    }
                }
                let r = check_one(mode, &auth, fault, op);
                match r {
                    Ok(false) => {}
                    Ok(true) => {
                        ev.eval(1);
                        ev.class(&format!("{}:{}", op.name(), fault.family()));
                        if *fault != Fault::None && len >= 1 {
                            ev.nontrivial(fnv64(&[op.name().as_bytes(), &len.to_le_bytes(), format!("{fault:?}").as_bytes(), &[fi as u8]]));
                        }
                        if len == 17 {
                            ev.sample(&format!("{}-{}", op.name(), fault.family()), || {
                                json!({"opener": op.name(), "len": len, "fault": format!("{fault:?}"), "wire": hx(&apply(&auth, fault).wire())})
                            });
                        }
                    }
                    Err(msg) => {
                        let c = Case { material: auth.clone(), fault: fault.clone(), opener: op };
                        return Err(Violation::new(pid, "aead-fault", msg, serde_json::to_value(&c).unwrap()));
                    }
                }
            }
        }
        Ok(())
    })?;
    ctx.ev.sample_cap = 24;
    ctx.exhaustive = Some(true);
    ctx.ev.extra.insert(
        "exhaustive_scope".into(),
        json!(format!(
            "for each enumerated (kind, message length in {:?}, {} fills): EVERY single-bit flip of tag/ciphertext/nonce/key/ephemeral key/header/AD, every truncation 1..=wire length, extensions {{1,2,15,16,17,64}} x {{zero,random}}; keys/nonces/messages themselves are seeded samples",
            if ctx.tier == Tier::Quick { "0,1,2,15,16,17,31,32,33,63,64,65,127,128,129".to_string() } else { "0..=200".to_string() },
            fills
        )),
    );
    Ok(())
}

pub fn run(ctx: &mut Ctx) -> Result<(), Violation> {
    ctx.rule = "One authentic wire message per (kind in {secretbox, box, precomputed box, sealed box, stream}, message length, fill), produced by libsodium; then EVERY single fault (bit flip of each component, every truncation, extension family) x EVERY opening entry point of that kind (classic easy/detached/in-place/afternm/seal_open/pull and object-API from_bytes/from_parts/decrypt/precalc_decrypt/unseal/pull with several containers). Plus untampered 3-message stream sequences with every combination of 8 tag bytes (both pull APIs must accept each message). Oracle: faulted open returns Err (no panic), control returns Ok(original); libsodium must reject the same faulted input (faults it accepts are excluded and counted). Non-trivial: exactly one fault on an authentic message of length >= 1; distinct = (opener, length, fault, fill).".into();
    ctx.assumptions = vec![
        "forgery probability 2^-128 per case is the accepted false-alarm bound".into(),
        "public/secret box key bit flips are not in the family (clamped and masked bits are don't-cares; the property does not list them)".into(),
    ];
    run_mode(ctx, Mode::C02)?;
    authentic_stream_sequences(ctx)?;
    long_authentic_stream(ctx.seed, &mut ctx.ev)
}

/// one long untampered stream (no REKEY / FINAL tags, no manual rekey): every one of its messages must be accepted
fn long_authentic_stream(seed: u64, ev: &mut Evidence) -> Result<(), Violation> {
    use dryoc::classic::crypto_secretstream_xchacha20poly1305 as css;
    use dryoc::dryocstream::{DryocStream, Pull};
    let mut f = Fill::new(seed, "C02:long-stream");
    let (key, header): ([u8; 32], [u8; 24]) = (f.arr(), f.arr());
    let mut push = sodium::stream_init_pull(&header, &key);
    let mut dst = css::State::new();
    css::crypto_secretstream_xchacha20poly1305_init_pull(&mut dst, &header, &key);
    let mut obj: DryocStream<Pull> = DryocStream::init_pull(&key, &header);
    for i in 0..700usize {
        let msg = f.bytes(i % 7);
        let tag = (i % 2) as u8; // MESSAGE / PUSH only
        let ct = sodium::stream_push(&mut push, &msg, None, tag);
        ev.eval(2);
        ev.class("long authentic stream (700 messages, no rekey)");
        let mut m = vec![0u8; msg.len()];
        let mut t = 0u8;
        let a = no_panic(|| css::crypto_secretstream_xchacha20poly1305_pull(&mut dst, &mut m, &mut t, &ct, None).is_ok());
        let b = no_panic(|| obj.pull_to_vec(&ct, None).map(|(m2, t2)| m2 == msg && t2.bits() == tag).unwrap_or(false));
        if a != Ok(true) || m != msg || t != tag || b != Ok(true) {
            return Err(Violation::new("C02", "long-authentic-stream", format!("untampered message #{} of a long stream was not accepted as pushed (classic: {a:?}, object: {b:?})", i + 1), json!({"seed": seed, "index": i})));
        }
    }
    Ok(())
}

/// "The untampered input is always accepted" for streams means every message of an untampered SEQUENCE: three
/// libsodium-pushed messages with every combination of tag bytes from a table must all be pulled (right message,
/// right tag) by the classic and the object API.
fn authentic_stream_sequences(ctx: &mut Ctx) -> Result<(), Violation> {
    use dryoc::classic::crypto_secretstream_xchacha20poly1305 as css;
    use dryoc::dryocstream::{DryocStream, Pull};
    let tags: [u8; 8] = [0, 1, 2, 3, 4, 0x82, 0x83, 0xff];
    let mut items = vec![];
    for a in tags {
        for b in tags {
            for c in tags {
                items.push([a, b, c]);
            }
        }
    }
    let seed = ctx.seed;
    ctx.par_each(&items, |_, seq, ev| seq_case(seed, seq, ev))
}

fn seq_case(seed: u64, seq: &[u8; 3], ev: &mut Evidence) -> Result<(), Violation> {
    use dryoc::classic::crypto_secretstream_xchacha20poly1305 as css;
    use dryoc::dryocstream::{DryocStream, Pull};
        for (li, len) in [0usize, 1, 33].into_iter().enumerate() {
            let mut f = Fill::new(seed, &format!("C02:seq:{seq:?}:{len}"));
            let (key, header): ([u8; 32], [u8; 24]) = (f.arr(), f.arr());
            let mut push = sodium::stream_init_pull(&header, &key); // same initial state as a push stream with this header
            let mut dst = css::State::new();
            css::crypto_secretstream_xchacha20poly1305_init_pull(&mut dst, &header, &key);
            let mut obj: DryocStream<Pull> = DryocStream::init_pull(&key, &header);
            for (i, &tag) in seq.iter().enumerate() {
                let msg = f.bytes(len + i);
                let ad = if (li + i) % 2 == 0 { None } else { Some(f.bytes(5)) };
                let ct = sodium::stream_push(&mut push, &msg, ad.as_deref(), tag);
                ev.eval(2);
                ev.class("authentic 3-message stream sequence (all tag combinations)");
                ev.nontrivial(fnv64(&[b"seq", seq, &[i as u8, len as u8]]));
                let case = json!({"tags": seq, "len": len, "index": i, "seed": seed});
                let mut m = vec![0u8; msg.len()];
                let mut t = 0u8;
                match no_panic(|| css::crypto_secretstream_xchacha20poly1305_pull(&mut dst, &mut m, &mut t, &ct, ad.as_deref())) {
                    Ok(Ok(_)) if m == msg && t == tag => {}
                    other => return Err(Violation::new("C02", "authentic-stream-sequence", format!("classic pull: untampered message #{i} (tag {tag:#04x}) of the sequence with tags {seq:02x?} was not accepted as pushed: {:?}", other.map(|r| r.map(|_| (t, m.len())).map_err(|e| format!("{e:?}")))), case)),
                }
                match no_panic(|| obj.pull_to_vec(&ct, ad.as_ref())) {
                    Ok(Ok((m2, t2))) if m2 == msg && t2.bits() == tag => {}
                    other => return Err(Violation::new("C02", "authentic-stream-sequence", format!("DryocStream::pull_to_vec: untampered message #{i} (tag {tag:#04x}) of the sequence with tags {seq:02x?} was not accepted as pushed: {:?}", other.map(|r| r.map(|(m, t)| (t.bits(), m.len())).map_err(|e| format!("{e:?}")))), case)),
                }
            }
        }
        Ok(())
}

pub fn replay_mode(v: &Violation, mode: Mode) -> Result<(), String> {
    let c: Case = from_case(&v.case)?;
    match v.kind.as_str() {
        "aead-fault-fixed-buffer" => {
            if open_fixed_buffer_accepts(c.opener, &apply(&c.material, &c.fault), c.material.msg.len()) == Some(true) {
                return Err("extended ciphertext accepted with a fixed-size caller buffer".into());
            }
            return Ok(());
        }
        "aead-fault-fixed-buffer-leak" => {
            if let Some((before, after, ok)) = open_fixed_buffer_observe(c.opener, &apply(&c.material, &c.fault), c.material.msg.len()) {
                if !ok && !unchanged_or_zero(&before, &after) {
                    return Err("failed open into a fixed-size buffer left data behind".into());
                }
            }
            return Ok(());
        }
        "aead-fault-then-authentic" => {
            if let Some((r1, Some(r2))) = stream_pull_then_authentic(c.opener, &apply(&c.material, &c.fault), &c.material) {
                if r1.is_err() && r2.as_deref().ok() != Some(&c.material.msg[..]) {
                    return Err("untampered message not accepted after a rejected tampered one".into());
                }
            }
            return Ok(());
        }
        "aead-fault-error-text" => {
            // compare against a reference fault of the same shape (first tag/ciphertext bit flip)
            let reference = if c.material.kind == Kind::Stream { Fault::FlipCt(8) } else { Fault::FlipTag(0) };
            let t = |f: &Fault| open_caught(c.opener, &apply(&c.material, f)).and_then(|r| r.ok()).and_then(|o| o.result.err());
            let (a, b) = (t(&reference), t(&c.fault));
            if a.is_some() && b.is_some() && a != b && apply(&c.material, &reference).wire().len() == apply(&c.material, &c.fault).wire().len() {
                return Err(format!("error text depends on the rejected bytes: {a:?} vs {b:?}"));
            }
            return Ok(());
        }
        _ => {}
    }
    check_one(mode, &c.material, &Fault::None, c.opener)?;
    check_one(mode, &c.material, &c.fault, c.opener).map(|_| ())
}

pub fn replay(v: &Violation) -> Result<(), String> {
    if v.kind == "long-authentic-stream" {
        return long_authentic_stream(v.case["seed"].as_u64().unwrap_or(1), &mut Evidence::default()).map_err(|v| v.message);
    }
    if v.kind == "authentic-stream-sequence" {
        let t: Vec<u8> = v.case["tags"].as_array().map(|a| a.iter().map(|x| x.as_u64().unwrap_or(0) as u8).collect()).unwrap_or_default();
        let seq: [u8; 3] = t.try_into().map_err(|_| "bad replay file")?;
        return seq_case(v.case["seed"].as_u64().unwrap_or(1), &seq, &mut Evidence::default()).map_err(|v| v.message);
    }
    replay_mode(v, Mode::C02)
}
