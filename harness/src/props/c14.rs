//! C14 — see DESIGN.md §3; implemented by the shared protected-memory driver (props/prot.rs).
use crate::core::*;

#[cfg(feature = "nightly")]
pub fn run(ctx: &mut Ctx) -> Result<(), Violation> {
    ctx.rule = "Histories over the type-state graph {Locked,Unlocked} x {ReadWrite,ReadOnly,NoAccess} (+ plain, clone, resize, write, drop; up to 3 live regions) for region lengths {0,1,16,32,64,4095,4096,4097,8192,8193} and both containers (HeapBytes, HeapByteArray<N>): 12 canonical paths covering every edge x 10 lengths x 2 containers, plus proptest-random histories with shrinking; every history runs in its own forked process. Oracle after every step: /proc/self/smaps shows exactly the advertised rights on every data page, the lock flag on exactly the Locked regions, process VmLck equals the sum of page-rounded Locked lengths, the page before the data and a page within one page beyond the allocation are ---p, contents equal the model; forked access probes at bytes {0, len-1, page boundaries +-1}: writes to ReadOnly and reads of NoAccess must die with SIGSEGV, ReadWrite accesses must succeed. After the last drop: VmLck back to baseline, no visited page left with rights other than rw- or still locked, every allocation released. Non-trivial: history with a protect transition and a lock/unlock transition, or a clone/resize of a locked region; distinct = hash(history).".into();
    ctx.assumptions = vec![
        "Linux only (/proc, mlock, mprotect); the process runs as root so RLIMIT_MEMLOCK is not enforced and lock refusal is injected by symbol interposition".into(),
        "page size 4096 (checked at run time)".into(),
    ];
    
    super::prot::run(ctx, super::prot::Which::C14)
}

#[cfg(feature = "nightly")]
pub fn replay(v: &Violation) -> Result<(), String> {
    super::prot::replay(v, super::prot::Which::C14)
}

#[cfg(not(feature = "nightly"))]
pub fn run(_ctx: &mut Ctx) -> Result<(), Violation> {
    eprintln!("C14 needs the nightly build configuration");
    std::process::exit(2);
}

#[cfg(not(feature = "nightly"))]
pub fn replay(_v: &Violation) -> Result<(), String> {
    Err("C14 needs the nightly build configuration".into())
}
