#![cfg_attr(feature = "nightly", feature(allocator_api))]
pub mod aead;
pub mod core;
pub mod models;
pub mod props;
pub mod sodium;
