#![cfg_attr(feature = "nightly", feature(allocator_api))]
pub mod aead;
pub mod alloc_track;
pub mod core;
pub mod models;
pub mod osobs;
pub mod protmodel;
pub mod props;
pub mod sodium;

#[global_allocator]
static GLOBAL: alloc_track::Tracking = alloc_track::Tracking;
