//! Thin safe wrappers over libsodium 1.0.18 (static, via libsodium-sys): the reference oracle.
#![allow(clippy::too_many_arguments)]
use libsodium_sys as ffi;
use std::ffi::CString;
use std::os::raw::{c_char, c_int, c_void};

pub fn init() {
    unsafe {
        if ffi::sodium_init() < 0 {
            eprintln!("sodium_init failed");
            std::process::exit(2);
        }
    }
}

// ---------- secretbox ----------
pub fn secretbox_easy(m: &[u8], n: &[u8; 24], k: &[u8; 32]) -> Vec<u8> {
    let mut c = vec![0u8; m.len() + 16];
    let r = unsafe {
        ffi::crypto_secretbox_easy(c.as_mut_ptr(), m.as_ptr(), m.len() as u64, n.as_ptr(), k.as_ptr())
    };
    assert_eq!(r, 0);
    c
}
pub fn secretbox_detached(m: &[u8], n: &[u8; 24], k: &[u8; 32]) -> (Vec<u8>, [u8; 16]) {
    let mut c = vec![0u8; m.len()];
    let mut mac = [0u8; 16];
    let r = unsafe {
        ffi::crypto_secretbox_detached(
            c.as_mut_ptr(),
            mac.as_mut_ptr(),
            m.as_ptr(),
            m.len() as u64,
            n.as_ptr(),
            k.as_ptr(),
        )
    };
    assert_eq!(r, 0);
    (c, mac)
}
pub fn secretbox_open_easy(c: &[u8], n: &[u8; 24], k: &[u8; 32]) -> Option<Vec<u8>> {
    if c.len() < 16 {
        return None;
    }
    let mut m = vec![0u8; c.len() - 16];
    let r = unsafe {
        ffi::crypto_secretbox_open_easy(m.as_mut_ptr(), c.as_ptr(), c.len() as u64, n.as_ptr(), k.as_ptr())
    };
    if r == 0 {
        Some(m)
    } else {
        None
    }
}
pub fn secretbox_open_detached(c: &[u8], mac: &[u8; 16], n: &[u8; 24], k: &[u8; 32]) -> Option<Vec<u8>> {
    let mut m = vec![0u8; c.len()];
    let r = unsafe {
        ffi::crypto_secretbox_open_detached(
            m.as_mut_ptr(),
            c.as_ptr(),
            mac.as_ptr(),
            c.len() as u64,
            n.as_ptr(),
            k.as_ptr(),
        )
    };
    if r == 0 {
        Some(m)
    } else {
        None
    }
}

// ---------- box ----------
pub fn box_seed_keypair(seed: &[u8; 32]) -> ([u8; 32], [u8; 32]) {
    let (mut pk, mut sk) = ([0u8; 32], [0u8; 32]);
    unsafe { ffi::crypto_box_seed_keypair(pk.as_mut_ptr(), sk.as_mut_ptr(), seed.as_ptr()) };
    (pk, sk)
}
pub fn box_easy(m: &[u8], n: &[u8; 24], pk: &[u8; 32], sk: &[u8; 32]) -> Option<Vec<u8>> {
    let mut c = vec![0u8; m.len() + 16];
    let r = unsafe {
        ffi::crypto_box_easy(c.as_mut_ptr(), m.as_ptr(), m.len() as u64, n.as_ptr(), pk.as_ptr(), sk.as_ptr())
    };
    if r == 0 {
        Some(c)
    } else {
        None
    }
}
pub fn box_detached(m: &[u8], n: &[u8; 24], pk: &[u8; 32], sk: &[u8; 32]) -> Option<(Vec<u8>, [u8; 16])> {
    let mut c = vec![0u8; m.len()];
    let mut mac = [0u8; 16];
    let r = unsafe {
        ffi::crypto_box_detached(
            c.as_mut_ptr(),
            mac.as_mut_ptr(),
            m.as_ptr(),
            m.len() as u64,
            n.as_ptr(),
            pk.as_ptr(),
            sk.as_ptr(),
        )
    };
    if r == 0 {
        Some((c, mac))
    } else {
        None
    }
}
pub fn box_open_easy(c: &[u8], n: &[u8; 24], pk: &[u8; 32], sk: &[u8; 32]) -> Option<Vec<u8>> {
    if c.len() < 16 {
        return None;
    }
    let mut m = vec![0u8; c.len() - 16];
    let r = unsafe {
        ffi::crypto_box_open_easy(m.as_mut_ptr(), c.as_ptr(), c.len() as u64, n.as_ptr(), pk.as_ptr(), sk.as_ptr())
    };
    if r == 0 {
        Some(m)
    } else {
        None
    }
}
pub fn box_open_detached(c: &[u8], mac: &[u8; 16], n: &[u8; 24], pk: &[u8; 32], sk: &[u8; 32]) -> Option<Vec<u8>> {
    let mut m = vec![0u8; c.len()];
    let r = unsafe {
        ffi::crypto_box_open_detached(
            m.as_mut_ptr(),
            c.as_ptr(),
            mac.as_ptr(),
            c.len() as u64,
            n.as_ptr(),
            pk.as_ptr(),
            sk.as_ptr(),
        )
    };
    if r == 0 {
        Some(m)
    } else {
        None
    }
}
pub fn box_beforenm(pk: &[u8; 32], sk: &[u8; 32]) -> Option<[u8; 32]> {
    let mut k = [0u8; 32];
    let r = unsafe { ffi::crypto_box_beforenm(k.as_mut_ptr(), pk.as_ptr(), sk.as_ptr()) };
    if r == 0 {
        Some(k)
    } else {
        None
    }
}
pub fn box_easy_afternm(m: &[u8], n: &[u8; 24], k: &[u8; 32]) -> Vec<u8> {
    let mut c = vec![0u8; m.len() + 16];
    let r = unsafe {
        ffi::crypto_box_easy_afternm(c.as_mut_ptr(), m.as_ptr(), m.len() as u64, n.as_ptr(), k.as_ptr())
    };
    assert_eq!(r, 0);
    c
}
pub fn box_open_easy_afternm(c: &[u8], n: &[u8; 24], k: &[u8; 32]) -> Option<Vec<u8>> {
    if c.len() < 16 {
        return None;
    }
    let mut m = vec![0u8; c.len() - 16];
    let r = unsafe {
        ffi::crypto_box_open_easy_afternm(m.as_mut_ptr(), c.as_ptr(), c.len() as u64, n.as_ptr(), k.as_ptr())
    };
    if r == 0 {
        Some(m)
    } else {
        None
    }
}
pub fn box_seal(m: &[u8], pk: &[u8; 32]) -> Vec<u8> {
    let mut c = vec![0u8; m.len() + 48];
    let r = unsafe { ffi::crypto_box_seal(c.as_mut_ptr(), m.as_ptr(), m.len() as u64, pk.as_ptr()) };
    assert_eq!(r, 0);
    c
}
pub fn box_seal_open(c: &[u8], pk: &[u8; 32], sk: &[u8; 32]) -> Option<Vec<u8>> {
    if c.len() < 48 {
        return None;
    }
    let mut m = vec![0u8; c.len() - 48];
    let r = unsafe {
        ffi::crypto_box_seal_open(m.as_mut_ptr(), c.as_ptr(), c.len() as u64, pk.as_ptr(), sk.as_ptr())
    };
    if r == 0 {
        Some(m)
    } else {
        None
    }
}

// ---------- secretstream ----------
pub type StreamState = ffi::crypto_secretstream_xchacha20poly1305_state;

pub fn stream_state(k: [u8; 32], nonce: [u8; 12]) -> StreamState {
    StreamState { k, nonce, _pad: [0u8; 8] }
}
pub fn stream_init_pull(header: &[u8; 24], key: &[u8; 32]) -> StreamState {
    let mut st = stream_state([0; 32], [0; 12]);
    let r = unsafe {
        ffi::crypto_secretstream_xchacha20poly1305_init_pull(&mut st, header.as_ptr(), key.as_ptr())
    };
    assert_eq!(r, 0);
    st
}
pub fn stream_push(st: &mut StreamState, m: &[u8], ad: Option<&[u8]>, tag: u8) -> Vec<u8> {
    let mut c = vec![0u8; m.len() + 17];
    let (adp, adl) = match ad {
        Some(a) => (a.as_ptr(), a.len() as u64),
        None => (std::ptr::null(), 0),
    };
    let r = unsafe {
        ffi::crypto_secretstream_xchacha20poly1305_push(
            st,
            c.as_mut_ptr(),
            std::ptr::null_mut(),
            m.as_ptr(),
            m.len() as u64,
            adp,
            adl,
            tag,
        )
    };
    assert_eq!(r, 0);
    c
}
pub fn stream_pull(st: &mut StreamState, c: &[u8], ad: Option<&[u8]>) -> Option<(Vec<u8>, u8)> {
    if c.len() < 17 {
        return None;
    }
    let mut m = vec![0u8; c.len() - 17];
    let mut tag = 0u8;
    let (adp, adl) = match ad {
        Some(a) => (a.as_ptr(), a.len() as u64),
        None => (std::ptr::null(), 0),
    };
    let r = unsafe {
        ffi::crypto_secretstream_xchacha20poly1305_pull(
            st,
            m.as_mut_ptr(),
            std::ptr::null_mut(),
            &mut tag,
            c.as_ptr(),
            c.len() as u64,
            adp,
            adl,
        )
    };
    if r == 0 {
        Some((m, tag))
    } else {
        None
    }
}
pub fn stream_rekey(st: &mut StreamState) {
    unsafe { ffi::crypto_secretstream_xchacha20poly1305_rekey(st) }
}

// ---------- curve ----------
pub fn scalarmult(n: &[u8; 32], p: &[u8; 32]) -> Option<[u8; 32]> {
    let mut q = [0u8; 32];
    let r = unsafe { ffi::crypto_scalarmult(q.as_mut_ptr(), n.as_ptr(), p.as_ptr()) };
    if r == 0 {
        Some(q)
    } else {
        None
    }
}
pub fn scalarmult_base(n: &[u8; 32]) -> [u8; 32] {
    let mut q = [0u8; 32];
    unsafe { ffi::crypto_scalarmult_base(q.as_mut_ptr(), n.as_ptr()) };
    q
}
pub fn kx_seed_keypair(seed: &[u8; 32]) -> ([u8; 32], [u8; 32]) {
    let (mut pk, mut sk) = ([0u8; 32], [0u8; 32]);
    unsafe { ffi::crypto_kx_seed_keypair(pk.as_mut_ptr(), sk.as_mut_ptr(), seed.as_ptr()) };
    (pk, sk)
}
pub fn kx_client(cpk: &[u8; 32], csk: &[u8; 32], spk: &[u8; 32]) -> Option<([u8; 32], [u8; 32])> {
    let (mut rx, mut tx) = ([0u8; 32], [0u8; 32]);
    let r = unsafe {
        ffi::crypto_kx_client_session_keys(rx.as_mut_ptr(), tx.as_mut_ptr(), cpk.as_ptr(), csk.as_ptr(), spk.as_ptr())
    };
    if r == 0 {
        Some((rx, tx))
    } else {
        None
    }
}
pub fn kx_server(spk: &[u8; 32], ssk: &[u8; 32], cpk: &[u8; 32]) -> Option<([u8; 32], [u8; 32])> {
    let (mut rx, mut tx) = ([0u8; 32], [0u8; 32]);
    let r = unsafe {
        ffi::crypto_kx_server_session_keys(rx.as_mut_ptr(), tx.as_mut_ptr(), spk.as_ptr(), ssk.as_ptr(), cpk.as_ptr())
    };
    if r == 0 {
        Some((rx, tx))
    } else {
        None
    }
}

// ---------- sign ----------
pub fn sign_seed_keypair(seed: &[u8; 32]) -> ([u8; 32], [u8; 64]) {
    let (mut pk, mut sk) = ([0u8; 32], [0u8; 64]);
    unsafe { ffi::crypto_sign_seed_keypair(pk.as_mut_ptr(), sk.as_mut_ptr(), seed.as_ptr()) };
    (pk, sk)
}
pub fn sign_detached(m: &[u8], sk: &[u8; 64]) -> [u8; 64] {
    let mut sig = [0u8; 64];
    unsafe {
        ffi::crypto_sign_detached(sig.as_mut_ptr(), std::ptr::null_mut(), m.as_ptr(), m.len() as u64, sk.as_ptr())
    };
    sig
}
pub fn sign_verify_detached(sig: &[u8; 64], m: &[u8], pk: &[u8; 32]) -> bool {
    unsafe { ffi::crypto_sign_verify_detached(sig.as_ptr(), m.as_ptr(), m.len() as u64, pk.as_ptr()) == 0 }
}
pub fn sign_combined(m: &[u8], sk: &[u8; 64]) -> Vec<u8> {
    let mut sm = vec![0u8; m.len() + 64];
    let mut l = 0u64;
    unsafe { ffi::crypto_sign(sm.as_mut_ptr(), &mut l, m.as_ptr(), m.len() as u64, sk.as_ptr()) };
    sm
}
pub fn sign_open(sm: &[u8], pk: &[u8; 32]) -> Option<Vec<u8>> {
    if sm.len() < 64 {
        return None;
    }
    let mut m = vec![0u8; sm.len()];
    let mut l = 0u64;
    let r = unsafe { ffi::crypto_sign_open(m.as_mut_ptr(), &mut l, sm.as_ptr(), sm.len() as u64, pk.as_ptr()) };
    if r == 0 {
        m.truncate(l as usize);
        Some(m)
    } else {
        None
    }
}
pub fn sign_ph_create(parts: &[&[u8]], sk: &[u8; 64]) -> [u8; 64] {
    let mut sig = [0u8; 64];
    unsafe {
        let mut st: ffi::crypto_sign_state = std::mem::zeroed();
        ffi::crypto_sign_init(&mut st);
        for p in parts {
            ffi::crypto_sign_update(&mut st, p.as_ptr(), p.len() as u64);
        }
        ffi::crypto_sign_final_create(&mut st, sig.as_mut_ptr(), std::ptr::null_mut(), sk.as_ptr());
    }
    sig
}
pub fn sign_ph_verify(parts: &[&[u8]], sig: &[u8; 64], pk: &[u8; 32]) -> bool {
    unsafe {
        let mut st: ffi::crypto_sign_state = std::mem::zeroed();
        ffi::crypto_sign_init(&mut st);
        for p in parts {
            ffi::crypto_sign_update(&mut st, p.as_ptr(), p.len() as u64);
        }
        ffi::crypto_sign_final_verify(&mut st, sig.as_ptr() as *mut u8, pk.as_ptr()) == 0
    }
}
pub fn ed_pk_to_curve(pk: &[u8; 32]) -> Option<[u8; 32]> {
    let mut o = [0u8; 32];
    let r = unsafe { ffi::crypto_sign_ed25519_pk_to_curve25519(o.as_mut_ptr(), pk.as_ptr()) };
    if r == 0 {
        Some(o)
    } else {
        None
    }
}
pub fn ed_sk_to_curve(sk: &[u8; 64]) -> [u8; 32] {
    let mut o = [0u8; 32];
    unsafe { ffi::crypto_sign_ed25519_sk_to_curve25519(o.as_mut_ptr(), sk.as_ptr()) };
    o
}

// ---------- hashes / MACs ----------
pub fn generichash(outlen: usize, input: &[u8], key: Option<&[u8]>) -> Option<Vec<u8>> {
    let mut out = vec![0u8; outlen];
    let (kp, kl) = match key {
        Some(k) => (k.as_ptr(), k.len()),
        None => (std::ptr::null(), 0),
    };
    let r = unsafe { ffi::crypto_generichash(out.as_mut_ptr(), outlen, input.as_ptr(), input.len() as u64, kp, kl) };
    if r == 0 {
        Some(out)
    } else {
        None
    }
}
pub fn sha512(input: &[u8]) -> [u8; 64] {
    let mut o = [0u8; 64];
    unsafe { ffi::crypto_hash_sha512(o.as_mut_ptr(), input.as_ptr(), input.len() as u64) };
    o
}
pub fn auth(input: &[u8], k: &[u8; 32]) -> [u8; 32] {
    let mut o = [0u8; 32];
    unsafe { ffi::crypto_auth(o.as_mut_ptr(), input.as_ptr(), input.len() as u64, k.as_ptr()) };
    o
}
pub fn auth_verify(mac: &[u8; 32], input: &[u8], k: &[u8; 32]) -> bool {
    unsafe { ffi::crypto_auth_verify(mac.as_ptr(), input.as_ptr(), input.len() as u64, k.as_ptr()) == 0 }
}
pub fn onetimeauth(input: &[u8], k: &[u8; 32]) -> [u8; 16] {
    let mut o = [0u8; 16];
    unsafe { ffi::crypto_onetimeauth(o.as_mut_ptr(), input.as_ptr(), input.len() as u64, k.as_ptr()) };
    o
}
pub fn onetimeauth_verify(mac: &[u8; 16], input: &[u8], k: &[u8; 32]) -> bool {
    unsafe { ffi::crypto_onetimeauth_verify(mac.as_ptr(), input.as_ptr(), input.len() as u64, k.as_ptr()) == 0 }
}
pub fn shorthash(input: &[u8], k: &[u8; 16]) -> [u8; 8] {
    let mut o = [0u8; 8];
    unsafe { ffi::crypto_shorthash(o.as_mut_ptr(), input.as_ptr(), input.len() as u64, k.as_ptr()) };
    o
}
pub fn hsalsa20(input: &[u8; 16], k: &[u8; 32], c: Option<&[u8; 16]>) -> [u8; 32] {
    let mut o = [0u8; 32];
    let cp = c.map_or(std::ptr::null(), |c| c.as_ptr());
    unsafe { ffi::crypto_core_hsalsa20(o.as_mut_ptr(), input.as_ptr(), k.as_ptr(), cp) };
    o
}
pub fn hchacha20(input: &[u8; 16], k: &[u8; 32], c: Option<&[u8; 16]>) -> [u8; 32] {
    let mut o = [0u8; 32];
    let cp = c.map_or(std::ptr::null(), |c| c.as_ptr());
    unsafe { ffi::crypto_core_hchacha20(o.as_mut_ptr(), input.as_ptr(), k.as_ptr(), cp) };
    o
}
pub fn increment(n: &mut [u8]) {
    unsafe { ffi::sodium_increment(n.as_mut_ptr(), n.len()) }
}
pub fn kdf_derive(len: usize, id: u64, ctx: &[u8; 8], key: &[u8; 32]) -> Option<Vec<u8>> {
    let mut o = vec![0u8; len];
    let r = unsafe {
        ffi::crypto_kdf_derive_from_key(o.as_mut_ptr(), len, id, ctx.as_ptr() as *const c_char, key.as_ptr())
    };
    if r == 0 {
        Some(o)
    } else {
        None
    }
}

// ---------- pwhash ----------
pub const ALG_ARGON2I13: i32 = 1;
pub const ALG_ARGON2ID13: i32 = 2;

pub fn pwhash(outlen: usize, pw: &[u8], salt: &[u8; 16], ops: u64, mem: usize, alg: i32) -> Option<Vec<u8>> {
    let mut o = vec![0u8; outlen];
    let r = unsafe {
        ffi::crypto_pwhash(
            o.as_mut_ptr(),
            outlen as u64,
            pw.as_ptr() as *const c_char,
            pw.len() as u64,
            salt.as_ptr(),
            ops,
            mem,
            alg as c_int,
        )
    };
    if r == 0 {
        Some(o)
    } else {
        None
    }
}
fn cstr_buf(buf: &[u8]) -> String {
    let end = buf.iter().position(|&b| b == 0).unwrap_or(buf.len());
    String::from_utf8_lossy(&buf[..end]).into_owned()
}
pub fn pwhash_str(pw: &[u8], ops: u64, mem: usize, alg: i32) -> Option<String> {
    let mut buf = [0u8; 128];
    let r = unsafe {
        ffi::crypto_pwhash_str_alg(
            buf.as_mut_ptr() as *mut c_char,
            pw.as_ptr() as *const c_char,
            pw.len() as u64,
            ops,
            mem,
            alg as c_int,
        )
    };
    if r == 0 {
        Some(cstr_buf(&buf))
    } else {
        None
    }
}
/// libsodium requires a NUL-terminated string in a buffer; strings with interior NUL are refused.
pub fn pwhash_str_verify(s: &str, pw: &[u8]) -> bool {
    let Ok(cs) = CString::new(s) else { return false };
    // crypto_pwhash_str_verify reads up to crypto_pwhash_STRBYTES; give it a padded buffer
    let mut buf = cs.into_bytes_with_nul();
    if buf.len() < 128 {
        buf.resize(128, 0);
    }
    unsafe { ffi::crypto_pwhash_str_verify(buf.as_ptr() as *const c_char, pw.as_ptr() as *const c_char, pw.len() as u64) == 0 }
}
/// 0 = no rehash needed, 1 = rehash needed, -1 = invalid string
pub fn pwhash_str_needs_rehash(s: &str, ops: u64, mem: usize) -> i32 {
    let Ok(cs) = CString::new(s) else { return -1 };
    let mut buf = cs.into_bytes_with_nul();
    if buf.len() < 128 {
        buf.resize(128, 0);
    }
    unsafe { ffi::crypto_pwhash_str_needs_rehash(buf.as_ptr() as *const c_char, ops, mem) as i32 }
}

extern "C" {
    fn argon2i_hash_raw(
        t_cost: u32, m_cost: u32, parallelism: u32, pwd: *const c_void, pwdlen: usize, salt: *const c_void,
        saltlen: usize, hash: *mut c_void, hashlen: usize,
    ) -> c_int;
    fn argon2id_hash_raw(
        t_cost: u32, m_cost: u32, parallelism: u32, pwd: *const c_void, pwdlen: usize, salt: *const c_void,
        saltlen: usize, hash: *mut c_void, hashlen: usize,
    ) -> c_int;
    fn argon2i_hash_encoded(
        t_cost: u32, m_cost: u32, parallelism: u32, pwd: *const c_void, pwdlen: usize, salt: *const c_void,
        saltlen: usize, hashlen: usize, encoded: *mut c_char, encodedlen: usize,
    ) -> c_int;
    fn argon2id_hash_encoded(
        t_cost: u32, m_cost: u32, parallelism: u32, pwd: *const c_void, pwdlen: usize, salt: *const c_void,
        saltlen: usize, hashlen: usize, encoded: *mut c_char, encodedlen: usize,
    ) -> c_int;
    fn argon2_verify(encoded: *const c_char, pwd: *const c_void, pwdlen: usize, ty: c_int) -> c_int;
}

/// libsodium's internal Argon2 (any salt length >= 8, any t >= 1). alg: 1 = i, 2 = id. m in KiB.
pub fn argon2_raw(alg: i32, t: u32, m_kib: u32, pw: &[u8], salt: &[u8], outlen: usize) -> Option<Vec<u8>> {
    let mut o = vec![0u8; outlen];
    let r = unsafe {
        let f = if alg == ALG_ARGON2I13 { argon2i_hash_raw } else { argon2id_hash_raw };
        f(
            t, m_kib, 1, pw.as_ptr() as *const c_void, pw.len(), salt.as_ptr() as *const c_void, salt.len(),
            o.as_mut_ptr() as *mut c_void, outlen,
        )
    };
    if r == 0 {
        Some(o)
    } else {
        None
    }
}
pub fn argon2_encoded(alg: i32, t: u32, m_kib: u32, pw: &[u8], salt: &[u8], hashlen: usize) -> Option<String> {
    let mut buf = vec![0u8; 1024];
    let r = unsafe {
        let f = if alg == ALG_ARGON2I13 { argon2i_hash_encoded } else { argon2id_hash_encoded };
        f(
            t, m_kib, 1, pw.as_ptr() as *const c_void, pw.len(), salt.as_ptr() as *const c_void, salt.len(),
            hashlen, buf.as_mut_ptr() as *mut c_char, buf.len(),
        )
    };
    if r == 0 {
        Some(cstr_buf(&buf))
    } else {
        None
    }
}
pub fn argon2_verify_str(s: &str, pw: &[u8], alg: i32) -> Option<bool> {
    let cs = CString::new(s).ok()?;
    let r = unsafe { argon2_verify(cs.as_ptr(), pw.as_ptr() as *const c_void, pw.len(), alg as c_int) };
    Some(r == 0)
}
