//! vcheck run <ID> --tier quick|thorough --seed N --evidence FILE
//! vcheck replay <FILE>
use std::io::Write;
use vharness::core::*;

fn arg(args: &[String], name: &str) -> Option<String> {
    args.iter().position(|a| a == name).and_then(|i| args.get(i + 1).cloned())
}

fn main() {
    let args: Vec<String> = std::env::args().collect();
    if args.len() < 3 {
        eprintln!("usage: vcheck run <ID> --tier T --seed N --evidence F | vcheck replay <file> | vcheck worker ...");
        std::process::exit(2);
    }
    vharness::sodium::init();
    install_quiet_panic_hook();
    match args[1].as_str() {
        "run" => {
            if let Err(e) = vharness::models::self_test() {
                eprintln!("HARNESS ERROR: model self-test failed: {e}");
                std::process::exit(2);
            }
            let id = args[2].clone();
            let tier = match arg(&args, "--tier").as_deref() {
                Some("thorough") => Tier::Thorough,
                _ => Tier::Quick,
            };
            let seed: u64 = arg(&args, "--seed").and_then(|s| s.parse().ok()).unwrap_or(1);
            let evidence = arg(&args, "--evidence").unwrap_or(format!("/verif/evidence/{id}.json"));
            let mut ctx = Ctx::new(&id, tier, seed);
            let res = vharness::props::dispatch(&mut ctx);
            let (code, nviol) = match &res {
                Ok(()) => (0, 0),
                Err(_) => (1, 1),
            };
            let ev = ctx.evidence_json(nviol);
            if let Some(p) = std::path::Path::new(&evidence).parent() {
                let _ = std::fs::create_dir_all(p);
            }
            std::fs::write(&evidence, serde_json::to_string_pretty(&ev).unwrap() + "\n").expect("write evidence");
            for (sig, n) in &ctx.ev.known_hits {
                println!("KNOWN-FINDING: property={id} {sig} (hit {n} times this run)");
            }
            if let Err(mut v) = res {
                if v.property == "?" {
                    v.property = id.clone();
                }
                let body = serde_json::to_string_pretty(&v).unwrap();
                let h = fnv64(&[body.as_bytes()]);
                let dir = format!("/verif/replays/{id}");
                let _ = std::fs::create_dir_all(&dir);
                let path = format!("{dir}/{h:016x}.json");
                std::fs::write(&path, body + "\n").expect("write replay");
                println!("violation detail: {}", v.message);
                println!("VIOLATION property={id} replay={path}");
            } else {
                println!(
                    "OK property={id} tier={} seed={seed} evaluations={} distinct_nontrivial={} wall_s={:.1}",
                    tier.name(),
                    ctx.ev.evaluations,
                    ctx.ev.nontrivial.len(),
                    ctx.start.elapsed().as_secs_f64()
                );
            }
            std::io::stdout().flush().ok();
            std::process::exit(code);
        }
        "replay" => {
            let body = std::fs::read_to_string(&args[2]).expect("read replay file");
            let v: Violation = serde_json::from_str(&body).expect("parse replay file");
            match vharness::props::replay(&v) {
                Ok(()) => {
                    println!("replay: property {} holds on this case (kind {})", v.property, v.kind);
                    std::process::exit(0);
                }
                Err(m) => {
                    println!("replay detail: {m}");
                    println!("VIOLATION property={} replay={}", v.property, args[2]);
                    std::process::exit(1);
                }
            }
        }
        "fuzzcase" => {
            // vcheck fuzzcase <C04|C16> <artifact>: turn a libFuzzer artifact into a replay file through the plain oracle
            let id = args[2].clone();
            let data = std::fs::read(&args[3]).expect("read artifact");
            let v = if id == "C04" {
                match vharness::props::c04::decode_fuzz_input(&data) {
                    Some(c) => match vharness::props::c04::exec(&c) {
                        Err(m) => Some(Violation::new("C04", "untrusted-input", m, serde_json::to_value(&c).unwrap())),
                        Ok(_) => None,
                    },
                    None => None,
                }
            } else {
                match vharness::props::c16::decode_fuzz(&data) {
                    Err(m) => Some(Violation::new("C16", "decoder-bytes", m, serde_json::json!({"bytes": hex::encode(&data)}))),
                    Ok(()) => None,
                }
            };
            match v {
                Some(v) => {
                    let body = serde_json::to_string_pretty(&v).unwrap();
                    let dir = format!("/verif/replays/{id}");
                    let _ = std::fs::create_dir_all(&dir);
                    let path = format!("{dir}/fuzz-{:016x}.json", fnv64(&[body.as_bytes()]));
                    std::fs::write(&path, body + "\n").expect("write replay");
                    println!("violation detail: {}", v.message);
                    println!("VIOLATION property={id} replay={path}");
                    std::process::exit(1);
                }
                None => {
                    eprintln!("INCONCLUSIVE: the fuzzer artifact does not reproduce through the plain oracle (sanitizer-only finding or flaky); artifact kept at {}", args[3]);
                    std::process::exit(2);
                }
            }
        }
        "corpus" => {
            let n = vharness::props::c04::write_seed_corpus(&args[2]).expect("write corpus");
            println!("wrote {n} seed files to {}", args[2]);
            std::process::exit(0);
        }
        "transcript" => {
            let seed: u64 = args[2].parse().unwrap_or(1);
            let tier = if args[3] == "thorough" { Tier::Thorough } else { Tier::Quick };
            std::process::exit(vharness::props::c18::write_transcript(seed, tier, &args[4]));
        }
        "worker" => {
            std::process::exit(vharness::props::worker(&args[2..]));
        }
        _ => {
            eprintln!("unknown subcommand");
            std::process::exit(2);
        }
    }
}
