#!/usr/bin/env bash
# tools/silence.sh [tier] [seeds...] : run every check on the unchanged tree for several seeds; report anything not exit 0
cd /verif
TIER="${1:-quick}"; shift
SEEDS="${*:-1 2 3 4 5}"
for s in $SEEDS; do
  for id in C01 C02 C03 C04 C05 C06 C07 C08 C09 C10 C11 C12 C13 C14 C15 C16 C17 C18 C19 C20; do
    t0=$(date +%s)
    out=$(VERIF_SEED=$s ./check $id $TIER 2>&1); rc=$?
    t1=$(date +%s)
    echo "seed=$s $id rc=$rc secs=$((t1-t0)) $(echo "$out" | grep -E '^OK|VIOLATION|INCONCLUSIVE' | tail -1 | cut -c1-160)"
  done
done
