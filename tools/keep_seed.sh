#!/usr/bin/env bash
# tools/keep_seed.sh <ID> <mN> "<cargo feature args for the demo or empty>" <check ids...>
# Verifies a sub-agent's change (demo fails with / passes without; suite passes with), runs the named checks
# against it, and stores patch + demo + meta.json under /verif/seeded/<ID>-<mN>/.
set -u
ID="$1"; M="$2"; FEAT="$3"; shift 3
OUT=/tmp/seedwork/out${R:-}-$ID/$M
DEST=/verif/seeded/$ID-${R:+r$R}$M
v=$(TESTARGS="${TESTARGS:-}" R="${R:-}" TC="${TC:-}" /verif/tools/verify_seed.sh "$ID" "$M" $FEAT); vrc=$?
echo "$v"
if [ $vrc -ne 0 ]; then echo "NOT KEPT: verification failed"; exit 1; fi
res=$(/verif/tools/try_seed.sh "$OUT/patch.diff" "$@")
echo "$res"
mkdir -p "$DEST"
cp "$OUT/patch.diff" "$DEST/"; cp "$OUT"/demo*.rs "$DEST/" 2>/dev/null; cp "$OUT/notes.md" "$DEST/" 2>/dev/null
python3 - "$ID" "$M" "$v" "$res" "$DEST" "$FEAT" <<'PY'
import json,sys,re
pid,m,v,res,dest,feat=sys.argv[1:7]
checks={}
for line in res.splitlines():
    mm=re.match(r'== (C\d+) rc=(\d+) :: (.*)',line)
    if mm: checks[mm.group(1)]={"exit":int(mm.group(2)),"detected":mm.group(2)=="1","output":mm.group(3)[:300]}
notes=open(dest+"/notes.md").read() if __import__("os").path.exists(dest+"/notes.md") else ""
meta={"property":pid,"seed":dest.split("/")[-1],"source":"independent sub-agent given only the property text and a scratch worktree",
 "needs_to_manifest":"see notes.md (written by the sub-agent)","verification":v,
 "commands":[f"tools/verify_seed.sh {pid} {m} {feat}".strip(), "tools/try_seed.sh patch.diff "+" ".join(checks.keys())],
 "checks_run":checks,"detected_by":[k for k,c in checks.items() if c["detected"]]}
json.dump(meta,open(dest+"/meta.json","w"),indent=1)
print("kept",dest,"detected_by",meta["detected_by"])
PY
