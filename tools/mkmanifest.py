#!/usr/bin/env python3
"""Regenerates /verif/MANIFEST.json from the table below (kept in one place so it is always valid)."""
import json, subprocess, sys, os

VERIF = os.path.dirname(os.path.dirname(os.path.abspath(__file__)))

# id -> (level category, technique, level text, level note, design ref)
CHECKS = {
    "C12": ("exploration",
            "enumeration of all lengths x id table + proptest random cases; differential vs libsodium and a BLAKE2b spec model; metamorphic distinctness",
            "Every subkey length 0..=80 is enumerated against the full id table for seeded keys/contexts and compared byte-for-byte with libsodium and an RFC 7693 model; random (key,ctx,id,len) cases add breadth. A counter-example would be a concrete (key,ctx,id,len).",
            "Trusts libsodium 1.0.18 and the harness BLAKE2b model (pinned by RFC KAT at start-up); sampled keys/contexts, not all 2^256.",
            "DESIGN.md §3 C12"),
}

NOT_YET = {
}

def main():
    hooks = subprocess.run(["git", "-C", "/repo", "log", "--format=%H %s"], capture_output=True, text=True).stdout.splitlines()
    hook_commits = [l.split()[0] for l in hooks if " verif hook:" in l]
    props = [json.loads(l)["id"] for l in open(os.path.join(VERIF, "properties.jsonl"))]
    checks = []
    for pid in props:
        if pid not in CHECKS:
            continue
        cat, tech, text, note, ref = CHECKS[pid]
        checks.append({
            "property_id": pid,
            "quick_cmd": f"./check {pid} quick",
            "thorough_cmd": f"./check {pid} thorough",
            "evidence_file": f"/verif/evidence/{pid}.json",
            "replay_cmd_template": "./check --replay {path}",
            "engine": "vharness",
            "level_claimed": {"category": cat, "text": text, "design_ref": ref},
            "level_note": note,
            "technique": tech,
        })
    na = [{"property_id": p, "reason": NOT_YET.get(p, "check not built yet in this session (planned; see DESIGN.md §7)")}
          for p in props if p not in CHECKS]
    m = {
        "version": 1,
        "setup_cmd": "./check --build all && (cd /verif/fuzz 2>/dev/null && ./build.sh || true)",
        "hooks": {
            "guard": "cargo feature verif_hooks",
            "enable": "harness crate depends on dryoc (path /repo) with features serde,base64,verif_hooks (+nightly / +nightly,simd_backend for the other two build configurations)",
            "baseline_off_cmd": "cd /repo && cargo test --workspace --no-fail-fast --offline",
            "source_commits": hook_commits,
            "add_only": True,
        },
        "engines": [
            {"name": "vharness", "path": "/verif/harness", "serves_properties": sorted(CHECKS.keys()),
             "kind_free_text": "Rust binary: proptest 1.11 TestRunner with fixed seed + deterministic enumerators + forked child processes; oracles = libsodium 1.0.18 (libsodium-sys), spec-level models (num-bigint), /proc and signals, rustc"},
        ],
        "checks": checks,
        "not_applicable": na,
        "notes": "Checks take VERIF_SEED; exit 0 held / 1 VIOLATION / 2 inconclusive (build failure, crash, timeout). Known findings: /verif/known_findings.jsonl.",
    }
    if not na:
        m["not_applicable"] = []
    json.dump(m, open(os.path.join(VERIF, "MANIFEST.json"), "w"), indent=1)
    print("wrote MANIFEST.json with", len(checks), "checks;", len(na), "not claimed")

if __name__ == "__main__":
    main()
