#!/usr/bin/env python3
"""Regenerates /verif/MANIFEST.json from the table below (kept in one place so it is always valid)."""
import json, subprocess, sys, os

VERIF = os.path.dirname(os.path.dirname(os.path.abspath(__file__)))

# id -> (level category, technique, level text, level note, design ref)
CHECKS = {
    "C18": ("exploration",
            "differential testing across build configurations: the same seeded corpus through three builds of the harness (default, nightly, nightly+simd_backend); transcripts compared line by line, each build also cross-checked with libsodium and across container types",
            "About 10k cases per build (generic hash at every length with chunkings, SHA-512, HMAC, kdf sweep, kx, X25519, box, sealed-box nonce derivation, signatures, Argon2 grid, container axis) must produce identical outputs in the three configurations and equal libsodium in each; a difference names the first diverging case id and builds.",
            "Only the three configurations that build on this image; third-party crates' own SIMD backends are not varied.",
            "DESIGN.md §3 C18"),
    "C20": ("exploration",
            "program generation from the type-state table (plus random valid transition chains) judged by the compiler: forbidden programs must fail with the primary error on the marked line, permitted controls must compile and run",
            "A model written from the documentation labels each generated program; rustc's verdict and diagnostics are the oracle. Every forbidden program has a control that differs only in the state reached and must compile and run, so a rejection cannot come from an unrelated typo. The enumerated table is visited completely.",
            "rustc nightly as installed is the judge; cells neither listed as misuse nor documented as permitted are recorded, not judged.",
            "DESIGN.md §3 C20"),
    "C16": ("exploration",
            "enumeration of payload lengths x object types x formats x containers (round-trip + still-decrypts oracle) and the complete wrong-length table (count 0..=2N for each fixed N, four encodings, nested documents)",
            "Every object type is pushed through to_bytes/from_bytes, into_parts/from_parts, serde_json (three entry points), bincode (two) and serde's value deserializers for both visitor paths, for every payload length 0..=L; the decoded object must equal the original and still decrypt/verify; to_bytes must equal libsodium's layout; every wrong-length encoding of a fixed-length container must be an error, never padding, truncation or a panic.",
            "Two serde formats plus serde's own value deserializers; other formats' habits (e.g. size hints) are represented by those two visitor paths.",
            "DESIGN.md §3 C16"),
    "C14": ("exploration",
            "model-based stateful testing: canonical type-state paths + proptest-random operation histories, each in a forked process; oracle = kernel bookkeeping (/proc/self/smaps, VmLck) and forked access probes (SIGSEGV verdicts)",
            "After every step of every history the kernel's view must match the model of the type state: per-page rights, lock flag, total locked size, guard pages, contents; forbidden accesses are performed in forked probes and must fault; after the last drop no locked or re-protected page may remain. Histories shrink to minimal sequences.",
            "Linux/x86-64 with 4 KiB pages only; bounded history depth and three live regions; the allocation observer hook supplies allocation sizes for the guard-page check.",
            "DESIGN.md §3 C14"),
    "C15": ("exploration",
            "model-based stateful testing with a feature-guarded release observer in the allocator; invariant over the whole history: every release is all-zero and allocations/releases balance",
            "Histories of fill / resize up and down / clone / lock / protect / drop over heap and protected containers, and library operations producing protected outputs, run in forked processes; the observer placed immediately before free reports the non-zero byte count of the entire allocation, which must be 0 for every release.",
            "Relies on the verif_hooks observer (checked to be connected); Linux only; bounded depth.",
            "DESIGN.md §3 C15"),
    "C19": ("fault_enumeration",
            "fault injection by symbol interposition (k-th and later mlock refused) crossed with model-based histories; for each history every k up to the number of lock calls is enumerated",
            "For each history the fault-free run counts lock calls; then for every k the run with the k-th and later mlock refused must not panic or crash, must return Err from the faulted Result-returning call, must keep earlier regions correctly protected (C14 oracle), wipe on release (C15 observer) and end with no residual locks.",
            "Only lock refusal is injected (ENOMEM from an interposed mlock); Clone/resize of locked regions (not Result-returning) are not generated at or after the fault point.",
            "DESIGN.md §3 C19"),
    "C09": ("exploration",
            "parameter-grid enumeration + proptest random parameter sets with shrinking; differential vs libsodium's public and internal Argon2 and (thorough) a pure-Python RFC 9106 implementation",
            "Every output length 16..=160, every memory size 8..=64 KiB x t 1..=3 x both algorithms, password and salt length sweeps, larger memories, an out-of-range table that must Err without allocating, and thousands of random parameter tuples (outlen up to 1100, salts 8..=64, t up to 6) are compared byte-for-byte with libsodium; PwHash verify accepts only the generating password.",
            "libsodium's Argon2 core is the reference (public API cross-checked against the internal raw entry for 16-byte salts); memory sizes bounded to keep cases cheap (<= 64 MiB in thorough).",
            "DESIGN.md §3 C09"),
    "C10": ("exploration",
            "proptest over (producer, password, costs, salt/hash lengths, rehash queries) with shrinking; oracles: strict parser + reference recomputation, bidirectional verify vs libsodium, re-encode identity, needs-rehash truth table vs libsodium",
            "Strings from five producers (two dryoc, three libsodium incl. the internal encoder for salt 8..=64 / hash 16..=128, both algorithms) are decoded by an independent strict parser, recomputed with the reference, verified in both libraries for right and wrong passwords, re-encoded through PwHash::from_string(..).to_string(), and queried with needs_rehash at and around the encoded costs.",
            "libsodium's encoder/verifier is the interop reference; costs kept small.",
            "DESIGN.md §3 C10"),
    "C11": ("exploration",
            "call-history sampling of every randomised entry point under a seeded interleaving; oracle = derived distinctness / all-zero / per-byte variability screens (false alarm < 2^-100) + key-pair consistency",
            "Hundreds (thorough: thousands) of calls per entry point, interleaved across entry points; repeated, all-zero, constant-byte, low-variability or inconsistent (pk != base(sk)) outputs are violations. Catches constant, zero, unfilled, partially filled or reused randomness; cannot establish unpredictability.",
            "OS randomness is the subject, so runs are not bit-reproducible; thresholds derived per output length.",
            "DESIGN.md §3 C11"),
    "C13": ("exploration",
            "enumeration of every box-seed length 0..=128, clamped-bit combinations, seeded kx/sign seeds, derive-keypair grid, honest Ed25519 pairs; differential vs libsodium constructions + model consistency",
            "Deterministic key generation through classic and object constructors with several containers is compared with libsodium's own functions (and with the construction SHA-512/BLAKE2b + base-point multiplication where libsodium only accepts 32-byte seeds); Ed25519->X25519 conversions equal libsodium's and form a consistent pair usable in a box that libsodium opens.",
            "libsodium constructions are the reference; sampled seeds.",
            "DESIGN.md §3 C13"),
    "C06": ("exploration",
            "enumeration of message lengths x forms (byte-differential vs libsodium and an RFC 8032 big-integer model) + constructed negative families (all bit flips, S+kL, small-order / non-canonical tables, model-built mixed-order keys); accept/reject differential vs libsodium",
            "Signatures for every message length in both modes and every API form must equal libsodium's bytes; the accept/reject decision of every dryoc verification form must equal libsodium's on every single-bit mutation, every S+kL that fits 256 bits, all small-order and non-canonical encodings as R and as public key, mode cross-overs, and mixed-order keys where the correct answer is sometimes accept.",
            "libsodium 1.0.18 defines strictness; non-canonical large-order R/pk with a valid equation cannot be constructed without a discrete log and are out of reach.",
            "DESIGN.md §3 C06"),
    "C01": ("exploration",
            "enumeration of every message length x every sealing form x container; byte-differential vs libsodium; round-trip and cross-open through every opener",
            "Every message length 0..=L (plus multi-KiB) is sealed through every classic and object-API form with several containers (heap/locked containers in a nightly sub-run) and compared byte-for-byte with libsodium; each result is opened by libsodium and by all 20 dryoc openers; dryoc-sealed boxes (internal ephemeral key) are structurally checked with the reference and opened by libsodium and vice versa.",
            "Keys, nonces and contents are seeded samples; honest key pairs are made by libsodium from seeds.",
            "DESIGN.md §3 C01"),
    "C03": ("exploration",
            "model-based stateful proptest: operation histories interpreted in lock-step against libsodium's secretstream, state compared after every step through the verif_hooks accessor",
            "Random histories of push / rekey / in-order delivery / wrong delivery (replay, skip, foreign stream, wrong AD, bit flip, truncate) from six counter classes incl. 0xfffffffe/0xffffffff; ciphertexts and both states must equal libsodium's after every step, wrong deliveries must be rejected leaving the pull state bit-identical, and the genuine next message must then be accepted; failing histories shrink.",
            "libsodium is the reference state machine; counter wrap reached only through the feature-guarded constructor; bounded history depth.",
            "DESIGN.md §3 C03"),
    "C04": ("exploration",
            "enumeration of every input length x content class x entry point, all 256 stream tags, grammar-based proptest password-hash strings; oracle: no panic (overflow checks on) and bounded allocation (counting allocator)",
            "Every attacker-facing opener/verifier/parser is called on every input length 0..=200 in seven content classes with caller buffers sized the documented way, on authentic stream messages with every tag byte, and on grammar-generated, random and mutated password-hash strings with bounded cost; a panic, an overflow or an oversized allocation is a violation. The libFuzzer target (fuzz/) runs the same oracle coverage-guided.",
            "Release build with overflow-checks on; allocation bound is a heuristic threshold (4*len + 1 MiB); cost parameters bounded as the property states.",
            "DESIGN.md §3 C04"),
    "C05": ("exploration",
            "constructed point/scalar tables + proptest random pairs; oracle: RFC 7748 big-integer ladder, libsodium, HSalsa20 model; kx accept/reject differential",
            "The complete low-order / non-canonical / high-bit encoding table crossed with special scalars (0, 0xff.., L, 8L, single bits), thousands of uniformly random encodings (about half on the twist) and honest pairs; crypto_scalarmult must equal a big-integer RFC 7748 ladder everywhere and libsodium wherever it answers, beforenm and kx keys must equal libsodium's, kx must refuse exactly when libsodium does.",
            "BigUint model pinned by RFC 7748 vectors; sampled scalars/points outside the tables.",
            "DESIGN.md §3 C05"),
    "C02": ("fault_enumeration",
            "exhaustive single-fault enumeration (every bit flip / truncation / extension) x every opening entry point; oracle Err + libsodium also rejects",
            "For each enumerated message length every single-bit corruption of tag, ciphertext, nonce, symmetric/precomputed/stream key, sealed-box ephemeral key, stream header and AD, every truncation and an extension family is applied to an authentic libsodium-made message and presented to every dryoc opener (classic and object API); each must return Err, the control Ok(original).",
            "Keys/nonces/messages are seeded samples; forgery probability 2^-128; libsodium is the reference for 'tampered' (faults it accepts are excluded and counted).",
            "DESIGN.md §3 C02"),
    "C07": ("exploration",
            "enumeration of every input length 0..=1100 x content classes; Poly1305 operands solved with big integers; 3-way differential dryoc = libsodium = spec model; bit-flip rejection for verify",
            "Every length 0..=1100 for each primitive (all block-size residues), the full BLAKE2b digest x key grid at block-boundary lengths, constructed Poly1305 carry cases (accumulator on 0..6, p-k, 2^k boundaries, s wrapping), HSalsa20/HChaCha20 with custom constants, increment carry chains; compared against two independent references.",
            "Trusts libsodium and the harness models (each pinned by published vectors at start-up; a model KAT failure exits 2). Sampled keys; BLAKE2b counter carry past 2^64 out of reach.",
            "DESIGN.md §3 C07"),
    "C08": ("exploration",
            "exhaustive 2-way / 3-way split enumeration + proptest random k-way partitions with shrinking; oracle = one-shot (dryoc and libsodium)",
            "Every 2-way split of every length up to the tier bound, every 3-way split for the 16-byte buffer and every boundary-adjacent 3-way split for the 128-byte buffers (unrestricted in thorough), random k-way partitions with empty pieces of messages up to 8 KiB; incremental result must equal the one-shot of both dryoc and libsodium.",
            "Reference is libsodium's one-shot on the concatenation; partitions beyond the enumerated bounds are sampled.",
            "DESIGN.md §3 C08"),
    "C17": ("fault_enumeration",
            "C02's exhaustive single-fault family over every classic open that writes a caller buffer; oracle: buffer unchanged-or-zero, tag output untouched",
            "Sentinel-filled caller buffers (or the in-place ciphertext) and a sentinel tag variable are inspected after every faulted open; on Err they must be byte-identical to before or all zero. A reference-computed ciphertext XOR keystream identifies a leak in the report.",
            "Object API exposes only Result; sentinel collision probability negligible; same sampling limits as C02.",
            "DESIGN.md §3 C17"),
    "C12": ("exploration",
            "enumeration of all lengths x id table + proptest random cases; differential vs libsodium and a BLAKE2b spec model; metamorphic distinctness",
            "Every subkey length 0..=80 is enumerated against the full id table for seeded keys/contexts and compared byte-for-byte with libsodium and an RFC 7693 model; random (key,ctx,id,len) cases add breadth. A counter-example would be a concrete (key,ctx,id,len).",
            "Trusts libsodium 1.0.18 and the harness BLAKE2b model (pinned by RFC KAT at start-up); sampled keys/contexts, not all 2^256.",
            "DESIGN.md §3 C12"),
}

NOT_YET = {
}

def main():
    hooks = subprocess.run(["git", "-C", "/repo", "log", "--format=%H %s"], capture_output=True, text=True).stdout.splitlines()
    hook_commits = [l.split()[0] for l in hooks if " verif hook:" in l]
    props = [json.loads(l)["id"] for l in open(os.path.join(VERIF, "properties.jsonl"))]
    checks = []
    for pid in props:
        if pid not in CHECKS:
            continue
        cat, tech, text, note, ref = CHECKS[pid]
        checks.append({
            "property_id": pid,
            "quick_cmd": f"./check {pid} quick",
            "thorough_cmd": f"./check {pid} thorough",
            "evidence_file": f"/verif/evidence/{pid}.json",
            "replay_cmd_template": "./check --replay {path}",
            "engine": "vharness",
            "level_claimed": {"category": cat, "text": text, "design_ref": ref},
            "level_note": note,
            "technique": tech,
        })
    na = [{"property_id": p, "reason": NOT_YET.get(p, "check not built yet in this session (planned; see DESIGN.md §7)")}
          for p in props if p not in CHECKS]
    m = {
        "version": 1,
        "setup_cmd": "./check --build all",
        "hooks": {
            "guard": "cargo feature verif_hooks",
            "enable": "harness crate depends on dryoc (path /repo) with features serde,base64,verif_hooks (+nightly / +nightly,simd_backend for the other two build configurations)",
            "baseline_off_cmd": "cd /repo && cargo test --workspace --no-fail-fast --offline",
            "source_commits": hook_commits,
            "add_only": True,
        },
        "engines": [
            {"name": "vharness", "path": "/verif/harness", "serves_properties": sorted(CHECKS.keys()),
             "kind_free_text": "Rust binary: proptest 1.11 TestRunner with fixed seed + deterministic enumerators + forked child processes; oracles = libsodium 1.0.18 (libsodium-sys), spec-level models (num-bigint), /proc and signals, rustc"},
        ],
        "checks": checks,
        "not_applicable": na,
        "notes": "Checks take VERIF_SEED; exit 0 held / 1 VIOLATION / 2 inconclusive (build failure, crash, timeout). Known findings: /verif/known_findings.jsonl.",
    }
    if not na:
        m["not_applicable"] = []
    json.dump(m, open(os.path.join(VERIF, "MANIFEST.json"), "w"), indent=1)
    print("wrote MANIFEST.json with", len(checks), "checks;", len(na), "not claimed")

if __name__ == "__main__":
    main()
