#!/usr/bin/env bash
# tools/retry_neutral.sh [check ids...] : re-apply every stored property-preserving change (/verif/neutral/*/patch.diff)
# and run the given quick checks (default: all 20); prints one line per (change, check) that is not exit 0.
cd /verif
IDS="${*:-C01 C02 C03 C04 C05 C06 C07 C08 C09 C10 C11 C12 C13 C14 C15 C16 C17 C18 C19 C20}"
for d in neutral/*/; do
  n=$(basename "$d")
  (cd /repo && git apply "/verif/$d/patch.diff") || { echo "$n: patch does not apply"; continue; }
  bad=""
  for id in $IDS; do
    out=$(./check "$id" quick 2>&1); rc=$?
    [ $rc -ne 0 ] && { bad="$bad $id(rc=$rc)"; echo "ALARM $n $id rc=$rc :: $(echo "$out" | grep -E 'violation detail|INCONCLUSIVE|BUILD FAILED' | head -2 | tr '\n' ' ' | cut -c1-400)"; }
  done
  git -C /repo checkout -- .
  echo "$n: ${bad:-silent}"
done
