#!/usr/bin/env bash
# tools/verify_seed.sh <ID> <mN> [cargo feature args]  : confirm a sub-agent's seeded change in ITS scratch worktree:
#   demo passes on clean HEAD, fails with the patch; the existing suite passes with the patch.
set -u
ID="$1"; M="$2"; shift 2; FEAT="$*"
WT=/tmp/seedwork/wt${R:-}-$ID; OUT=/tmp/seedwork/out${R:-}-$ID/$M
export CARGO_NET_OFFLINE=true
cd "$WT" || exit 2
git checkout -q -- . ; git clean -fdq tests src 2>/dev/null
demo=$(ls "$OUT"/demo*.rs 2>/dev/null | head -1)
[ -z "$demo" ] && { echo "no demo in $OUT"; exit 2; }
name=$(basename "$demo" .rs)
cp "$demo" tests/
T="--target-dir $WT/target"
cargo ${TC:-} test --offline $T $FEAT --test "$name" ${TESTARGS:-} >"$OUT/verify-clean.log" 2>&1; c=$?
git apply "$OUT/patch.diff" || { echo "patch does not apply"; exit 2; }
cargo ${TC:-} test --offline $T $FEAT --test "$name" ${TESTARGS:-} >"$OUT/verify-patched.log" 2>&1; p=$?
rm -f tests/$name.rs
cargo test --offline $T --workspace >"$OUT/verify-suite.log" 2>&1; s=$?
passed=$(grep -E "^test result: ok" "$OUT/verify-suite.log" | awk '{s+=$4} END{print s}')
git checkout -q -- . ; git clean -fdq tests src 2>/dev/null
echo "$ID/$M demo_clean_rc=$c demo_patched_rc=$p suite_rc=$s suite_passed=$passed"
[ $c -eq 0 ] && [ $p -ne 0 ] && [ $s -eq 0 ] && exit 0
exit 1
