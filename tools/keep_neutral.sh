#!/usr/bin/env bash
# tools/keep_neutral.sh <area> <nN> : a sub-agent's PROPERTY-PRESERVING change (out4-<area>/<nN>/patch.diff):
# confirm the pinned suite passes with it, run every quick check against it (all must exit 0), store under /verif/neutral/.
set -u
A="$1"; N="$2"
OUT=/tmp/seedwork/out${R:-4}-$A/$N; DEST=/verif/neutral/$A-$N
[ -f "$OUT/patch.diff" ] || { echo "no patch in $OUT"; exit 2; }
cd /repo && git apply --check "$OUT/patch.diff" || { echo "patch does not apply"; exit 2; }
git apply "$OUT/patch.diff"
suite=$(CARGO_NET_OFFLINE=true cargo test --workspace --no-fail-fast --offline --target-dir /tmp/seedwork/neutral-target 2>&1 | grep -E "^test result" | awk '{p+=$4; f+=$6} END{print p" passed "f" failed"}')
cd /verif
res=""
for id in C01 C02 C03 C04 C05 C06 C07 C08 C09 C10 C11 C12 C13 C14 C15 C16 C17 C18 C19 C20; do
  out=$(./check "$id" quick 2>&1); rc=$?
  line="== $id rc=$rc :: $(echo "$out" | grep -E 'violation detail|VIOLATION|INCONCLUSIVE|BUILD FAILED' | head -3 | tr '\n' ' ' | cut -c1-500)"
  echo "$line"; res="$res$line"$'\n'
done
git -C /repo checkout -- . ; git -C /repo status --short | head -3
mkdir -p "$DEST"; cp "$OUT/patch.diff" "$DEST/"; cp "$OUT/notes.md" "$DEST/" 2>/dev/null
python3 - "$A-$N" "$suite" "$res" "$DEST" <<'PY'
import json,sys,re
name,suite,res,dest=sys.argv[1:5]
checks={}
for line in res.splitlines():
    m=re.match(r'== (C\d+) rc=(\d+) :: (.*)',line)
    if m: checks[m.group(1)]={"exit":int(m.group(2)),"output":m.group(3)[:400]}
meta={"name":name,"kind":"property-preserving change written by an independent sub-agent (false-alarm test)","suite":suite,
      "checks_run":checks,"alarms":[k for k,c in checks.items() if c["exit"]!=0]}
json.dump(meta,open(dest+"/meta.json","w"),indent=1)
print("kept",dest,"suite:",suite,"alarms:",meta["alarms"])
PY
