#!/usr/bin/env python3
"""Pure-Python Argon2i / Argon2id (RFC 9106, version 0x13, p = 1), written from the RFC text.
stdin: lines "alg t m_kib outlen pw_hex salt_hex" (alg 1 = Argon2i, 2 = Argon2id); stdout: hex tag per line.
Third, independent implementation used by C09's thorough tier."""
import sys, hashlib, struct

M64 = (1 << 64) - 1

def le32(x):
    return struct.pack("<I", x)

def b2(data, n):
    return hashlib.blake2b(data, digest_size=n).digest()

def hprime(t, a):
    if t <= 64:
        return b2(le32(t) + a, t)
    r = (t + 31) // 32 - 2
    v = b2(le32(t) + a, 64)
    out = v[:32]
    for _ in range(r - 1):
        v = b2(v, 64)
        out += v[:32]
    out += b2(v, t - 32 * r)
    return out

def rotr(x, n):
    return ((x >> n) | (x << (64 - n))) & M64

def gb(v, a, b, c, d):
    va, vb, vc, vd = v[a], v[b], v[c], v[d]
    va = (va + vb + 2 * (va & 0xffffffff) * (vb & 0xffffffff)) & M64
    vd = rotr(vd ^ va, 32)
    vc = (vc + vd + 2 * (vc & 0xffffffff) * (vd & 0xffffffff)) & M64
    vb = rotr(vb ^ vc, 24)
    va = (va + vb + 2 * (va & 0xffffffff) * (vb & 0xffffffff)) & M64
    vd = rotr(vd ^ va, 16)
    vc = (vc + vd + 2 * (vc & 0xffffffff) * (vd & 0xffffffff)) & M64
    vb = rotr(vb ^ vc, 63)
    v[a], v[b], v[c], v[d] = va, vb, vc, vd

def perm(v):
    gb(v, 0, 4, 8, 12); gb(v, 1, 5, 9, 13); gb(v, 2, 6, 10, 14); gb(v, 3, 7, 11, 15)
    gb(v, 0, 5, 10, 15); gb(v, 1, 6, 11, 12); gb(v, 2, 7, 8, 13); gb(v, 3, 4, 9, 14)

def G(x, y):
    r = [a ^ b for a, b in zip(x, y)]
    z = list(r)
    # rows: 8 rows of 16 words
    for i in range(8):
        v = z[16 * i:16 * i + 16]
        perm(v)
        z[16 * i:16 * i + 16] = v
    # columns: column i consists of words (2i, 2i+1) of every row
    for i in range(8):
        idx = []
        for row in range(8):
            idx += [16 * row + 2 * i, 16 * row + 2 * i + 1]
        v = [z[j] for j in idx]
        perm(v)
        for j, val in zip(idx, v):
            z[j] = val
    return [a ^ b for a, b in zip(z, r)]

def to_words(b):
    return list(struct.unpack("<128Q", b))

def from_words(w):
    return struct.pack("<128Q", *w)

def argon2(alg, t, m, outlen, pw, salt):
    p = 1
    h0 = b2(le32(p) + le32(outlen) + le32(m) + le32(t) + le32(0x13) + le32(alg) + le32(len(pw)) + pw + le32(len(salt)) + salt + le32(0) + le32(0), 64)
    mp = 4 * p * (m // (4 * p))
    q = mp // p
    seg = q // 4
    B = [None] * q
    B[0] = to_words(hprime(1024, h0 + le32(0) + le32(0)))
    B[1] = to_words(hprime(1024, h0 + le32(1) + le32(0)))
    zero = [0] * 128
    for r in range(t):
        for s in range(4):
            independent = alg == 1 or (alg == 2 and r == 0 and s < 2)
            addr = None
            counter = 0
            start = 2 if (r == 0 and s == 0) else 0
            for i in range(seg):
                if independent and i % 128 == 0:
                    counter += 1
                    inp = [0] * 128
                    inp[0], inp[1], inp[2], inp[3], inp[4], inp[5], inp[6] = r, 0, s, mp, t, alg, counter
                    addr = G(zero, G(zero, inp))
                if i < start:
                    continue
                cur = s * seg + i
                prev = cur - 1 if cur > 0 else q - 1
                if independent:
                    pr = addr[i % 128]
                else:
                    pr = B[prev][0]
                j1 = pr & 0xffffffff
                # p = 1: reference lane is the current lane
                if r == 0:
                    if s == 0:
                        w = i - 1
                    else:
                        w = s * seg + i - 1
                else:
                    w = q - seg + i - 1
                x = (j1 * j1) >> 32
                y = (w * x) >> 32
                rel = w - 1 - y
                startpos = 0 if (r == 0 or s == 3) else (s + 1) * seg
                ref = (startpos + rel) % q
                nb = G(B[prev], B[ref])
                if r > 0:
                    nb = [a ^ b for a, b in zip(nb, B[cur])]
                B[cur] = nb
    return hprime(outlen, from_words(B[q - 1]))

def main():
    for line in sys.stdin:
        f = line.split()
        if len(f) < 4:
            continue
        alg, t, m, outlen = int(f[0]), int(f[1]), int(f[2]), int(f[3])
        pw = bytes.fromhex(f[4]) if len(f) > 4 and f[4] != "-" else b""
        salt = bytes.fromhex(f[5]) if len(f) > 5 else b""
        print(argon2(alg, t, m, outlen, pw, salt).hex())
        sys.stdout.flush()

if __name__ == "__main__":
    main()
