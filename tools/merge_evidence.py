#!/usr/bin/env python3
"""merge_evidence.py MAIN PART... : fold sub-run evidence files (disjoint case sets) into MAIN."""
import json, sys
main = json.load(open(sys.argv[1]))
cov = main["coverage"]
for p in sys.argv[2:]:
    e = json.load(open(p))
    c = e["coverage"]
    cov["evaluations"] += c["evaluations"]
    cov["distinct_nontrivial"] += c["distinct_nontrivial"]  # sub-runs count disjoint case sets (stated in rule)
    cov["samples"] += c.get("samples", [])
    for k, v in c.get("classes", {}).items():
        cov.setdefault("classes", {})[k] = cov.get("classes", {}).get(k, 0) + v
    for k in ("excluded_by_construction", "known_finding_hits"):
        for kk, v in c.get(k, {}).items():
            cov.setdefault(k, {})[kk] = cov.get(k, {}).get(kk, 0) + v
    cov.setdefault("sub_runs", []).append({"file": p.split("/")[-1], "evaluations": c["evaluations"], "distinct_nontrivial": c["distinct_nontrivial"], "wall_s": e["wall_s"]})
    main["wall_s"] += e["wall_s"]
    main["violations"] = main.get("violations", 0) + e.get("violations", 0)
json.dump(main, open(sys.argv[1], "w"), indent=2)
