#!/usr/bin/env bash
# tools/try_seed.sh <patch.diff> <ID> [<ID>...] : apply a seeded change to /repo, run the quick checks, undo it.
set -u
PATCH="$1"; shift
cd /repo && git apply "$PATCH" || { echo "patch does not apply to /repo"; exit 2; }
cd /verif
for id in "$@"; do
  out=$(./check "$id" "${TIER:-quick}" 2>&1); rc=$?
  echo "== $id rc=$rc :: $(echo "$out" | grep -E 'violation detail|VIOLATION|^OK|INCONCLUSIVE|BUILD FAILED' | head -3 | tr '\n' ' ' | cut -c1-400)"
done
git -C /repo checkout -- . ; git -C /repo status --short | head -3
