#!/usr/bin/env bash
# fuzz/run.sh <target> <seconds> <seed> : build the libFuzzer target against /repo's working tree and run a
# forked campaign from the committed corpus. Prints FUZZ-CRASH <artifact> on a finding; exit 0 otherwise.
# A build failure or a time cap is "inconclusive" (exit 2), never a violation.
set -u
cd "$(dirname "$0")"
TARGET="$1"; SECS="${2:-60}"; SEED="${3:-1}"
export CARGO_NET_OFFLINE=true
if ! cargo +nightly fuzz build --fuzz-dir . "$TARGET" >build-$TARGET.log 2>&1; then
  echo "fuzz build failed; see $(pwd)/build-$TARGET.log" >&2; tail -5 build-$TARGET.log >&2; exit 2
fi
WORK="work/$TARGET"; ART="artifacts/$TARGET"
rm -rf "$WORK" "$ART"; mkdir -p "$WORK" "$ART"
[ -d "../corpus/$TARGET" ] && cp ../corpus/$TARGET/* "$WORK"/ 2>/dev/null
BIN=target/x86_64-unknown-linux-gnu/release/$TARGET
[ "$SEED" = 0 ] && SEED=1
"$BIN" "$WORK" -fork=16 -ignore_crashes=0 -ignore_ooms=0 -ignore_timeouts=1 -max_total_time="$SECS" -max_len=1024 -len_control=0 -seed="$SEED" -timeout=25 -rss_limit_mb=4096 -artifact_prefix="$ART/" >run-$TARGET.log 2>&1
rc=$?
execs=$(grep -o '^#[0-9]*' run-$TARGET.log | tail -1 | tr -d '#')
echo "FUZZ-STATS target=$TARGET seconds=$SECS execs=${execs:-0} corpus=$(ls "$WORK" | wc -l)"
crash=$(ls "$ART"/crash-* "$ART"/oom-* 2>/dev/null | head -1)
if [ -n "$crash" ]; then
  echo "FUZZ-CRASH $(pwd)/$crash"
  exit 1
fi
[ $rc -ne 0 ] && { echo "libFuzzer exited with $rc without an artifact (inconclusive)" >&2; tail -5 run-$TARGET.log >&2; exit 2; }
exit 0
