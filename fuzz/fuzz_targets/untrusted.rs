//! C04 domain B: coverage-guided bytes -> (entry point, key set, AD, payload); the oracle (no panic,
//! no overflow, bounded allocation) is the harness's `exec`, i.e. inside the target.
#![no_main]
use libfuzzer_sys::fuzz_target;
use std::sync::Once;

static INIT: Once = Once::new();

fuzz_target!(|data: &[u8]| {
    INIT.call_once(|| {
        vharness::sodium::init();
        vharness::core::install_quiet_panic_hook();
    });
    if data.len() > 4096 {
        return;
    }
    if let Some(c) = vharness::props::c04::decode_fuzz_input(data) {
        if let Err(m) = vharness::props::c04::exec(&c) {
            // restore a loud hook so libFuzzer's report carries the oracle's message
            let _ = std::panic::take_hook();
            panic!("C04 violation: {m}");
        }
    }
});
