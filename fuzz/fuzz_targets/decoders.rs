//! C16 decoder target: arbitrary bytes -> bincode / serde_json -> every serde-enabled type.
//! Oracle (in the harness, shared with replay): no panic; anything that decodes re-encodes stably.
#![no_main]
use libfuzzer_sys::fuzz_target;
use std::sync::Once;

static INIT: Once = Once::new();

fuzz_target!(|data: &[u8]| {
    INIT.call_once(|| {
        vharness::core::install_quiet_panic_hook();
    });
    if data.len() > 2048 {
        return;
    }
    if let Err(m) = vharness::props::c16::decode_fuzz(data) {
        let _ = std::panic::take_hook();
        panic!("C16 violation: {m}");
    }
});
